#!/bin/bash
# Rebuilds the simulator from /repo's current working tree: rewriter -> overlay -> test binary.
# Exit 2 on any build trouble (never a VIOLATION).
set -u
export GOFLAGS=-mod=mod GOPROXY=off GOSUMDB=off GOTOOLCHAIN=local PATH=/opt/veriftools/go1.26.8/bin:$PATH
export GOCACHE=${GOCACHE:-/root/.cache/go-build}
V=/verif
B=$V/.build
mkdir -p $B/bin $B/overlay
if [ ! -x $B/bin/rewrite ] || [ $V/tools/rewrite/main.go -nt $B/bin/rewrite ]; then
  (cd $V/tools/rewrite && go build -o $B/bin/rewrite .) || { echo "build: rewriter failed" >&2; exit 2; }
fi
YIELD=github.com/lindb/lindb/kv,github.com/lindb/lindb/pkg/queue,github.com/lindb/lindb/replica,github.com/lindb/lindb/index,github.com/lindb/lindb/tsdb,github.com/lindb/lindb/query,github.com/lindb/lindb/coordinator/master,github.com/lindb/lindb/coordinator/discovery,github.com/lindb/lindb/internal/concurrent,github.com/lindb/lindb/app/storage/rpc
CONSTS=github.com/lindb/lindb/pkg/queue.dataPageSize=512,github.com/lindb/lindb/pkg/queue.indexItemsPerPage=8,github.com/lindb/lindb/pkg/bufioutil.defaultWriteBufferSize=4096
$B/bin/rewrite -dir /repo -out $B/overlay -const $CONSTS -yield $YIELD \
  ./kv/... ./pkg/... ./replica/... ./index/... ./tsdb/... ./query/... ./coordinator/... ./internal/... ./flow/... ./aggregation/... ./app/storage/rpc/... ./series/... ./models/... ./metrics/... ./rpc/... > $B/rewrite.log 2>&1 || { cat $B/rewrite.log >&2; echo "build: rewrite failed" >&2; exit 2; }
(cd $V/sim && cp -n /repo/go.sum go.sum 2>/dev/null; go test -c -tags verif -overlay $B/overlay/overlay.json -o $B/sim.test.new ./run) > $B/build.log 2>&1 || { cat $B/build.log >&2; echo "build: go test -c failed" >&2; exit 2; }
mv $B/sim.test.new $B/sim.test
exit 0
