#!/bin/bash
# Rebuilds the simulator from /repo's current working tree: rewriter -> overlay -> test binary.
# Exit 2 on any build trouble (never a VIOLATION).
set -u
export GOFLAGS=-mod=mod GOPROXY=off GOSUMDB=off GOTOOLCHAIN=local PATH=/opt/veriftools/go1.26.8/bin:$PATH
export GOCACHE=${GOCACHE:-/root/.cache/go-build}
V=$(cd "$(dirname "$0")" && pwd)
# VERIF_REPO / VERIF_BUILD: evaluation of seeded changes in a scratch worktree (never used by MANIFEST commands)
REPO=${VERIF_REPO:-/repo}
B=${VERIF_BUILD:-$V/.build}
mkdir -p $B/bin $B/overlay
if [ ! -x $B/bin/rewrite ] || [ $V/tools/rewrite/main.go -nt $B/bin/rewrite ]; then
  (cd $V/tools/rewrite && go build -o $B/bin/rewrite .) || { echo "build: rewriter failed" >&2; exit 2; }
fi
# third-party code that owns goroutines/locks/clocks is copied out of the module cache so that the
# rewriter can treat it like lindb code (overlays cannot replace files under GOMODCACHE)
TP=$V/.build/third_party
if [ ! -d $TP/golang-lru ]; then
  mkdir -p $TP && cp -r $(go env GOMODCACHE)/github.com/hashicorp/golang-lru/v2@v2.0.7 $TP/golang-lru && chmod -R u+w $TP/golang-lru || { echo "build: copy golang-lru failed" >&2; exit 2; }
fi
if [ ! -d $TP/common ]; then
  cp -r $(go env GOMODCACHE)/github.com/lindb/common@v0.0.6 $TP/common && chmod -R u+w $TP/common || { echo "build: copy lindb/common failed" >&2; exit 2; }
  # fasttime caches the wall clock in a real 5 ms ticker goroutine started from init: under simulation
  # it must read the (fake) clock of the bubble
  rm -f $TP/common/pkg/fasttime/*.go; cat > $TP/common/pkg/fasttime/fasttime.go <<'GOEOF'
// Simulation copy of lindb/common fasttime: reads the clock directly (no ticker goroutine).
package fasttime

import "time"

func UnixNano() int64         { return time.Now().UnixNano() }
func UnixMicroseconds() int64 { return time.Now().UnixNano() / 1e3 }
func UnixMilliseconds() int64 { return time.Now().UnixNano() / 1e6 }
func UnixTimestamp() int64    { return time.Now().UnixNano() / 1e9 }
GOEOF
  rm -f $TP/common/pkg/fasttime/*_test.go
fi
# NowNano names things (memdb field buffers) by the nanosecond clock; the fake clock does not move
# between two statements, so the simulation copy adds a per-run tick (reset by core.Execute)
if ! grep -q VerifNanoTick $TP/common/pkg/timeutil/time.go; then
  python3 - <<PYEOF || { echo "build: patch NowNano failed" >&2; exit 2; }
p="$TP/common/pkg/timeutil/time.go"
s=open(p).read()
old="func NowNano() int64 {\n\treturn time.Now().UnixNano()\n}"
assert old in s
s=s.replace(old,"// VerifNanoTick makes NowNano strictly increasing under the fake clock.\nvar VerifNanoTick int64\n\nfunc NowNano() int64 {\n\tVerifNanoTick++\n\treturn time.Now().UnixNano() + VerifNanoTick\n}")
open(p,"w").write(s)
PYEOF
fi
YIELD=github.com/lindb/lindb/kv,github.com/lindb/lindb/pkg/queue,github.com/lindb/lindb/replica,github.com/lindb/lindb/index,github.com/lindb/lindb/tsdb,github.com/lindb/lindb/query,github.com/lindb/lindb/coordinator/master,github.com/lindb/lindb/coordinator/discovery,github.com/lindb/lindb/internal/concurrent,github.com/lindb/lindb/app/storage/rpc,github.com/lindb/lindb/aggregation,github.com/lindb/lindb/flow
CONSTS=github.com/lindb/lindb/pkg/queue.dataPageSize=512,github.com/lindb/lindb/pkg/queue.indexItemsPerPage=8,github.com/lindb/lindb/pkg/bufioutil.defaultWriteBufferSize=4096
$B/bin/rewrite -dir $REPO -out $B/overlay -const $CONSTS -yield $YIELD \
  ./kv/... ./pkg/... ./replica/... ./index/... ./tsdb/... ./query/... ./coordinator/... ./internal/... ./flow/... ./aggregation/... ./app/storage/rpc/... ./series/... ./models/... ./metrics/... ./rpc/... > $B/rewrite.log 2>&1 || { cat $B/rewrite.log >&2; echo "build: rewrite failed" >&2; exit 2; }
$B/bin/rewrite -dir $V/sim -out $B/overlay_tp -tags verif github.com/hashicorp/golang-lru/v2/expirable > $B/rewrite_tp.log 2>&1 || { cat $B/rewrite_tp.log >&2; echo "build: rewrite (third party) failed" >&2; exit 2; }
python3 - <<PYEOF || { echo "build: overlay merge failed" >&2; exit 2; }
import json
a=json.load(open("$B/overlay/overlay.json")); b=json.load(open("$B/overlay_tp/overlay.json"))
a["Replace"].update(b["Replace"])
json.dump(a,open("$B/overlay_all.json","w"))
PYEOF
MODFLAG=""
if [ "$REPO" != "/repo" ] || [ "$B" != "$V/.build" ]; then
  sed -e "s#=> /repo#=> $REPO#" -e "s#=> ../.build/third_party#=> $V/.build/third_party#" $V/sim/go.mod > $B/alt.mod && cp $V/sim/go.sum $B/alt.sum
  MODFLAG="-modfile=$B/alt.mod"
fi
(cd $V/sim && go test $MODFLAG -c -tags verif -overlay $B/overlay_all.json -o $B/sim.test.new ./run) > $B/build.log 2>&1 || { cat $B/build.log >&2; echo "build: go test -c failed" >&2; exit 2; }
mv $B/sim.test.new $B/sim.test
exit 0
