#!/bin/bash
# Run once after a fresh restore, offline: builds the rewriter and the simulator binary, warming the go build cache.
set -u
cd "$(dirname "$0")"
export GOFLAGS=-mod=mod GOPROXY=off GOSUMDB=off GOTOOLCHAIN=local PATH=/opt/veriftools/go1.26.8/bin:$PATH
mkdir -p .build/bin evidence replays
./build.sh || exit 2
echo "setup: ok"
