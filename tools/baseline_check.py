#!/usr/bin/env python3
"""Runs the pinned test command in a lindb tree (guard off) and compares with BASELINE.json stable_pass.
usage: baseline_check.py [repo_dir]   exit 0 = all 597 stable tests pass"""
import json, os, subprocess, sys
repo = sys.argv[1] if len(sys.argv) > 1 else "/repo"
base = json.load(open("/root/.vp/BASELINE.json"))
want = set(base["stable_pass"])
env = dict(os.environ, GOFLAGS="-mod=mod", GOPROXY="off", GOSUMDB="off")
p = subprocess.run(["go", "test", "-mod=mod", "-json", "-vet=off", "-count=1", "-timeout", "25m", "./..."], cwd=repo, env=env, stdout=subprocess.PIPE, stderr=subprocess.STDOUT, text=True)
passed = set()
for line in p.stdout.splitlines():
    try:
        e = json.loads(line)
    except Exception:
        continue
    if e.get("Action") == "pass" and e.get("Test"):
        passed.add("%s::%s" % (e["Package"], e["Test"]))
missing = sorted(want - passed)
print("baseline: %d of %d stable tests pass" % (len(want) - len(missing), len(want)))
for m in missing[:20]:
    print("  MISSING", m)
sys.exit(1 if missing else 0)
