#!/usr/bin/env python3
"""Runs the checks against every kept seeded change (seeded/<PROP>/<n>/patch.diff) in scratch worktrees and records
the outcome as "final_check" in its meta.json. usage: seedsweep.py [tier] [jobs] [PROP...]
SEEDS=C01/13,C05/14,... restricts the sweep to those changes."""
import json, os, re, subprocess, sys, concurrent.futures
V = os.path.dirname(os.path.dirname(os.path.abspath(__file__)))
tier = sys.argv[1] if len(sys.argv) > 1 else "quick"
jobs = int(sys.argv[2]) if len(sys.argv) > 2 else 3
only = set(sys.argv[3:])
seeds = set(filter(None, os.environ.get("SEEDS", "").split(",")))
items = []
for prop in sorted(os.listdir(os.path.join(V, "seeded"))):
    if only and prop not in only:
        continue
    for n in sorted(os.listdir(os.path.join(V, "seeded", prop))):
        d = os.path.join(V, "seeded", prop, n)
        if os.path.exists(os.path.join(d, "patch.diff")) and (not seeds or "%s/%s" % (prop, n) in seeds):
            items.append((prop, n, d))

def one(it):
    prop, n, d = it
    out = subprocess.run([os.path.join(V, "tools/seedcheck.sh"), os.path.join(d, "patch.diff"), tier, prop], stdout=subprocess.PIPE, stderr=subprocess.STDOUT, text=True).stdout
    res = [l[:260] for l in out.split("\n") if re.search(r"DETECTED|missed|ERROR|does not apply", l)]
    mp = os.path.join(d, "meta.json")
    m = json.load(open(mp))
    head = subprocess.run(["git", "-C", "/repo", "log", "--format=%h", "-n1"], stdout=subprocess.PIPE, text=True).stdout.strip()
    m["final_check"] = {"tier": tier, "repo_head": head, "result": res}
    json.dump(m, open(mp, "w"), indent=1)
    return "%s/%s %s" % (prop, n, " ; ".join(res)[:230])

with concurrent.futures.ThreadPoolExecutor(max_workers=jobs) as ex:
    for line in ex.map(one, items):
        print(line, flush=True)
