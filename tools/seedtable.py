#!/usr/bin/env python3
"""Prints the markdown table of DESIGN 10.3(a) from seeded/<PROP>/<n>/meta.json."""
import json, os, re, glob
V = os.path.dirname(os.path.dirname(os.path.abspath(__file__)))
def verdict(lines):
    if not lines:
        return "-"
    t = " ".join(lines) if isinstance(lines, list) else str(lines)
    m = re.search(r"DETECTED: violation: (C\d+/[A-Za-z0-9/_-]+)", t)
    if m:
        return "detected `%s`" % m.group(1)
    if "missed" in t:
        return "missed"
    if "ERROR" in t:
        return "trouble (exit 2)"
    return t[:40]
rows = []
for mp in sorted(glob.glob(os.path.join(V, "seeded", "*", "*", "meta.json")), key=lambda p: (p.split("/")[-3], int(p.split("/")[-2]))):
    m = json.load(open(mp))
    prop, n = mp.split("/")[-3], mp.split("/")[-2]
    title = re.sub(r"\s+", " ", m.get("title", ""))[:110]
    first = verdict(m.get("checks_run_against_it"))
    now = verdict((m.get("final_check") or {}).get("result"))
    rows.append("| %s/%s | %s | %s | %s |" % (prop, n, title, first, now))
print("| change | what it is | first | now |\n|---|---|---|---|")
print("\n".join(rows))
first_missed = sum(1 for r in rows if "| missed |" in r.rsplit("|", 3)[0] + "|" or r.split("|")[3].strip().startswith(("missed", "trouble")))
print("\n%d changes; missed or trouble at first: %d; missed now: %d" % (len(rows), sum(1 for r in rows if r.split("|")[3].strip().startswith(("missed", "trouble"))), sum(1 for r in rows if r.split("|")[4].strip().startswith(("missed", "trouble", "-")))))
