#!/usr/bin/env python3
"""Replayability self-test: runs seeds as the k-th runs of one worker process (as the search does), then replays
each recorded plan as the only run of a fresh process (as a replay file is used) and compares the digests of the
full event traces. A divergence means state leaks from one run of a process into the next.
usage: replaycheck.py <PROP> [nseeds] [start] [tier]"""
import json, os, subprocess, sys, tempfile, concurrent.futures
sys.path.insert(0, os.path.join(os.path.dirname(os.path.abspath(__file__)), ".."))
from props import PROPS
prop = sys.argv[1]
n = int(sys.argv[2]) if len(sys.argv) > 2 else 40
start = int(sys.argv[3]) if len(sys.argv) > 3 else 7770000
tier = sys.argv[4] if len(sys.argv) > 4 else "quick"
BIN = os.environ.get("VERIF_BIN", "/verif/.build/sim.test")
def run(env):
    fd, out = tempfile.mkstemp(dir="/dev/shm"); os.close(fd)
    e = dict(os.environ, VERIF_OUT=out, **env)
    subprocess.run([BIN, "-test.run", "^TestWorker$", "-test.timeout", "0"], env=e, stdout=subprocess.DEVNULL, stderr=subprocess.DEVNULL)
    rs = [json.loads(l) for l in open(out) if l.startswith("{")]
    os.unlink(out)
    return rs
rs = run({"VERIF_MODE": "gen", "VERIF_HARNESS": PROPS[prop]["harness"], "VERIF_ALT_HARNESS": PROPS[prop].get("alt_harness", ""), "VERIF_PROP": prop, "VERIF_TIER": tier,
          "VERIF_SEED_START": str(start), "VERIF_SEED_COUNT": str(n), "VERIF_KEEP_PLANS": "1"})
rs = [r for r in rs if r.get("plan")]
def one(ir):
    i, r = ir
    fd, pf = tempfile.mkstemp(dir="/dev/shm", suffix=".json"); os.close(fd)
    json.dump({"property": prop, "plan": r["plan"]}, open(pf, "w"))
    rr = run({"VERIF_MODE": "replay", "VERIF_REPLAY": pf})
    os.unlink(pf)
    if not rr:
        return (i, r["seed"], "no result")
    if rr[0].get("digest") != r.get("digest") or rr[0].get("sig", "") != r.get("sig", ""):
        return (i, r["seed"], "gen %s/%s replay %s/%s cfg=%s" % (r.get("digest"), r.get("sig"), rr[0].get("digest"), rr[0].get("sig"), r["plan"].get("cfg")))
    return None
bad = []
with concurrent.futures.ThreadPoolExecutor(max_workers=12) as ex:
    for x in ex.map(one, list(enumerate(rs))):
        if x:
            bad.append(x)
print("%s: %d recorded runs of one process replayed in fresh processes, divergences: %d" % (prop, len(rs), len(bad)))
for b in bad[:5]:
    print("  run #%d seed %s: %s" % b)
sys.exit(1 if bad else 0)
