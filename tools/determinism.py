#!/usr/bin/env python3
"""Determinism self-test: same seeds, separate processes, several GOMAXPROCS; digests must agree.
usage: determinism.py <PROP> [nseeds] [start]"""
import json, os, subprocess, sys, tempfile
sys.path.insert(0, os.path.join(os.path.dirname(os.path.abspath(__file__)), ".."))
from props import PROPS
prop = sys.argv[1]
n = int(sys.argv[2]) if len(sys.argv) > 2 else 64
start = int(sys.argv[3]) if len(sys.argv) > 3 else 4242000
per = PROPS[prop].get("per_proc", 200)
BIN = "/verif/.build/sim.test"
def run(gmp, s, cnt):
    fd, out = tempfile.mkstemp(dir="/dev/shm"); os.close(fd)
    env = dict(os.environ, GOMAXPROCS=str(gmp), VERIF_MODE="gen", VERIF_HARNESS=PROPS[prop]["harness"], VERIF_ALT_HARNESS=PROPS[prop].get("alt_harness", ""), VERIF_PROP=prop,
               VERIF_SEED_START=str(s), VERIF_SEED_COUNT=str(cnt), VERIF_OUT=out, LOG_LEVEL="fatal")
    subprocess.run([BIN, "-test.run", "^TestWorker$", "-test.timeout", "0"], env=env, stdout=subprocess.DEVNULL, stderr=subprocess.DEVNULL)
    d = {}
    for l in open(out):
        if l.startswith("{"):
            r = json.loads(l); d[r["seed"]] = (r.get("digest"), r.get("sig", ""), r.get("steps"), r.get("end"), r.get("anomaly", "")[:80])
    os.unlink(out)
    return d
runs = []
for gmp in (1, 4, 16, 16, 1, 4):
    d = {}
    s = start
    while s < start + n:
        c = min(per, start + n - s)
        d.update(run(gmp, s, c)); s += c
    runs.append((gmp, d))
bad = 0
base = runs[0][1]
for gmp, d in runs[1:]:
    for seed in sorted(base):
        if d.get(seed) != base[seed]:
            bad += 1
            if bad <= 5: print("DIVERGENCE seed", seed, "GOMAXPROCS", gmp, base[seed], d.get(seed))
print("%s: %d seeds x %d executions, divergences: %d, anomalies: %d" % (prop, len(base), len(runs), bad, sum(1 for v in base.values() if v[4])))
sys.exit(1 if bad or len(base) < n else 0)
