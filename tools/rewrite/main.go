// rewrite: type-directed source-to-source pass that maps goroutine, lock,
// condition, channel, atomic and map-iteration constructs of the lindb packages
// under test onto the simulator runtime (verifsim/simrt).  Output is a
// `go build -overlay` file; /repo is never modified.
//
// usage: rewrite -dir /repo -out <dir> [-tags verif] [-yield pkgpath,...] pkgpattern...
package main

import (
	"bytes"
	"encoding/json"
	"flag"
	"fmt"
	"go/ast"
	"go/format"
	"go/token"
	"go/types"
	"os"
	"path/filepath"
	"sort"
	"strings"

	"golang.org/x/tools/go/ast/astutil"
	"golang.org/x/tools/go/packages"
)

const simrtPath = "verifsim/simrt"

var methodMap = map[string]string{
	"(*sync.Mutex).Lock":       "Lock",
	"(*sync.Mutex).Unlock":     "Unlock",
	"(*sync.Mutex).TryLock":    "TryLock",
	"(*sync.RWMutex).Lock":     "Lock",
	"(*sync.RWMutex).Unlock":   "Unlock",
	"(*sync.RWMutex).RLock":    "RLock",
	"(*sync.RWMutex).RUnlock":  "RUnlock",
	"(sync.Locker).Lock":       "Lock",
	"(sync.Locker).Unlock":     "Unlock",
	"(*sync.Cond).Wait":        "CondWait",
	"(*sync.Cond).Signal":      "CondSignal",
	"(*sync.Cond).Broadcast":   "CondBroadcast",
	"(*sync.WaitGroup).Wait":   "WGWait",
	"(*sync.Once).Do":          "OnceDo",
	"(*sync.Map).Range":        "SyncMapRange",
	"(*sync.Pool).Get":         "PoolGet",
	"(*sync.Pool).Put":         "PoolPut",
}

var funcMap = map[string]string{
	"time.Sleep":         "Sleep",
	"runtime.GOMAXPROCS": "GOMAXPROCS", // worker pool sizes must not depend on the machine: a per-run knob
}

// package-level functions that create OS resources (file descriptors, mappings): the simulation's versions
// register what they create, so that the resources of killed incarnations can be released when the run is over
var resMap = map[string]string{
	"os.OpenFile":                 "OpenFile",
	"os.Open":                     "Open",
	"os.Create":                   "Create",
	"golang.org/x/sys/unix.Mmap":   "Mmap",
	"golang.org/x/sys/unix.Munmap": "Munmap",
}

var tokCounter int

type rw struct {
	p       *packages.Package
	info    *types.Info
	stats   map[string]int
	yields  bool
	changed bool
}

func fail(format string, a ...any) {
	fmt.Fprintf(os.Stderr, "rewrite: "+format+"\n", a...)
	os.Exit(2)
}

func main() {
	dir := flag.String("dir", "/repo", "module directory")
	out := flag.String("out", "", "output directory")
	tags := flag.String("tags", "verif", "build tags")
	yieldPkgs := flag.String("yield", "", "comma separated package path prefixes that get function-entry yields")
	consts := flag.String("const", "", "comma separated pkgpath.name=literal compile-time knobs")
	flag.Parse()
	knobs := map[string]string{}
	for _, kv := range strings.Split(*consts, ",") {
		if i := strings.Index(kv, "="); i > 0 {
			knobs[kv[:i]] = kv[i+1:]
		}
	}
	usedKnobs := map[string]bool{}
	if *out == "" {
		fail("need -out")
	}
	if abs, err := filepath.Abs(*out); err == nil {
		*out = abs
	}
	if err := os.MkdirAll(*out, 0o755); err != nil {
		fail("%v", err)
	}
	cfg := &packages.Config{
		Mode:       packages.NeedName | packages.NeedFiles | packages.NeedCompiledGoFiles | packages.NeedSyntax | packages.NeedTypes | packages.NeedTypesInfo | packages.NeedImports | packages.NeedDeps,
		Dir:        *dir,
		BuildFlags: []string{"-tags=" + *tags},
	}
	pkgs, err := packages.Load(cfg, flag.Args()...)
	if err != nil {
		fail("load: %v", err)
	}
	sort.Slice(pkgs, func(i, j int) bool { return pkgs[i].PkgPath < pkgs[j].PkgPath })
	overlay := map[string]string{}
	stats := map[string]int{}
	var yp []string
	for _, y := range strings.Split(*yieldPkgs, ",") {
		if y != "" {
			yp = append(yp, y)
		}
	}
	for _, p := range pkgs {
		if len(p.Errors) > 0 {
			fail("package %s: %v", p.PkgPath, p.Errors)
		}
		wantYield := false
		for _, y := range yp {
			if p.PkgPath == y || strings.HasPrefix(p.PkgPath, y+"/") {
				wantYield = true
			}
		}
		for i, f := range p.Syntax {
			fname := p.CompiledGoFiles[i]
			if !strings.HasSuffix(fname, ".go") || strings.HasSuffix(fname, "_test.go") {
				continue
			}
			r := &rw{p: p, info: p.TypesInfo, stats: stats, yields: wantYield}
			r.file(f)
			for _, d := range f.Decls {
				gd, ok := d.(*ast.GenDecl)
				if !ok || gd.Tok != token.CONST {
					continue
				}
				for _, sp := range gd.Specs {
					vs := sp.(*ast.ValueSpec)
					for ni, name := range vs.Names {
						key := p.PkgPath + "." + name.Name
						if lit, ok := knobs[key]; ok && ni < len(vs.Values) {
							vs.Values[ni] = &ast.BasicLit{Kind: token.INT, Value: lit}
							usedKnobs[key] = true
							r.changed = true
							stats["Knob"]++
						}
					}
				}
			}
			if !r.changed {
				continue
			}
			for _, ip := range []string{"runtime", "time", "sync", "os", "golang.org/x/sys/unix"} {
				if !astutil.UsesImport(f, ip) {
					astutil.DeleteImport(p.Fset, f, ip)
				}
			}
			stripComments(f)
			if usesSimrt(f) {
				astutil.AddImport(p.Fset, f, simrtPath)
			}
			var buf bytes.Buffer
			if err := format.Node(&buf, p.Fset, f); err != nil {
				fail("format %s: %v", fname, err)
			}
			rel := strings.ReplaceAll(strings.TrimPrefix(fname, "/"), "/", "__")
			outFile := filepath.Join(*out, rel)
			old, _ := os.ReadFile(outFile)
			if !bytes.Equal(old, buf.Bytes()) {
				if err := os.WriteFile(outFile, buf.Bytes(), 0o644); err != nil {
					fail("%v", err)
				}
			}
			overlay[fname] = outFile
		}
	}
	for k := range knobs {
		if !usedKnobs[k] {
			fail("knob %s not found", k)
		}
	}
	data, _ := json.MarshalIndent(map[string]any{"Replace": overlay}, "", " ")
	if err := os.WriteFile(filepath.Join(*out, "overlay.json"), data, 0o644); err != nil {
		fail("%v", err)
	}
	keys := make([]string, 0, len(stats))
	for k := range stats {
		keys = append(keys, k)
	}
	sort.Strings(keys)
	var sb strings.Builder
	for _, k := range keys {
		fmt.Fprintf(&sb, " %s=%d", k, stats[k])
	}
	fmt.Printf("rewrite: %d packages, %d files:%s\n", len(pkgs), len(overlay), sb.String())
}

func sel(name string) ast.Expr {
	return &ast.SelectorExpr{X: ast.NewIdent("simrt"), Sel: ast.NewIdent(name)}
}

func call(name string, args ...ast.Expr) *ast.CallExpr {
	return &ast.CallExpr{Fun: sel(name), Args: args}
}

func (r *rw) pos(n ast.Node) string { return r.p.Fset.Position(n.Pos()).String() }

func (r *rw) file(f *ast.File) {
	r.quietFirstUse(f)
	r.node(f)
	if r.yields {
		for _, d := range f.Decls {
			fd, ok := d.(*ast.FuncDecl)
			if !ok || fd.Body == nil {
				continue
			}
			if fd.Name.Name == "init" && fd.Recv == nil {
				continue
			}
			label := r.p.Name + "." + fd.Name.Name
			y := &ast.ExprStmt{X: call("Yield", &ast.BasicLit{Kind: token.STRING, Value: fmt.Sprintf("%q", label)})}
			fd.Body.List = append([]ast.Stmt{y}, fd.Body.List...)
			r.stats["Yield"]++
			r.changed = true
		}
	}
}

// quietFirstUse: lindb's metric vectors (internal/linmetric) are process-wide; WithTagValues creates the
// entry of a tag value the first time it is asked for it in a process (exclusive lock, registry locks, atomics)
// and only looks it up later. The creation path is made invisible to the scheduler (no yields, no choices), so
// a run makes the same choices whether it is the first of its process to touch a constant tag value or not.
func (r *rw) quietFirstUse(f *ast.File) {
	if !strings.HasSuffix(r.p.PkgPath, "/internal/linmetric") {
		return
	}
	for _, d := range f.Decls {
		fd, ok := d.(*ast.FuncDecl)
		if !ok || fd.Body == nil || fd.Name.Name != "WithTagValues" {
			continue
		}
		for i, st := range fd.Body.List {
			es, ok := st.(*ast.ExprStmt)
			if !ok {
				continue
			}
			ce, ok := es.X.(*ast.CallExpr)
			if !ok || len(ce.Args) != 0 {
				continue
			}
			se, ok := ce.Fun.(*ast.SelectorExpr)
			if !ok || se.Sel.Name != "Lock" {
				continue
			}
			begin := &ast.ExprStmt{X: call("QuietBegin")}
			end := &ast.DeferStmt{Call: call("QuietEnd")}
			list := append([]ast.Stmt{}, fd.Body.List[:i]...)
			list = append(list, begin, end)
			list = append(list, fd.Body.List[i:]...)
			fd.Body.List = list
			r.stats["QuietFirstUse"]++
			r.changed = true
			break
		}
	}
}

func (r *rw) isAtomicCall(n *ast.CallExpr) bool {
	s, ok := n.Fun.(*ast.SelectorExpr)
	if !ok {
		return false
	}
	fn, ok := r.info.Uses[s.Sel].(*types.Func)
	if !ok || fn.Pkg() == nil {
		return false
	}
	switch fn.Pkg().Path() {
	case "sync/atomic", "go.uber.org/atomic":
		// constructors are not interesting
		return !strings.HasPrefix(fn.Name(), "New")
	}
	return false
}

// containsAtomic reports whether the statement's own expressions (not nested
// blocks or function literals) contain an atomic operation.
func (r *rw) stmtHasAtomic(s ast.Stmt) bool {
	found := false
	var exprs []ast.Node
	switch n := s.(type) {
	case *ast.ExprStmt:
		exprs = append(exprs, n.X)
	case *ast.AssignStmt:
		for _, e := range n.Lhs {
			exprs = append(exprs, e)
		}
		for _, e := range n.Rhs {
			exprs = append(exprs, e)
		}
	case *ast.IfStmt:
		if n.Init != nil {
			exprs = append(exprs, n.Init)
		}
		exprs = append(exprs, n.Cond)
	case *ast.ReturnStmt:
		for _, e := range n.Results {
			exprs = append(exprs, e)
		}
	case *ast.IncDecStmt:
		exprs = append(exprs, n.X)
	case *ast.SwitchStmt:
		if n.Init != nil {
			exprs = append(exprs, n.Init)
		}
		if n.Tag != nil {
			exprs = append(exprs, n.Tag)
		}
	case *ast.ForStmt:
		if n.Cond != nil {
			exprs = append(exprs, n.Cond)
		}
	case *ast.DeclStmt:
		exprs = append(exprs, n.Decl)
	}
	for _, e := range exprs {
		ast.Inspect(e, func(x ast.Node) bool {
			switch c := x.(type) {
			case *ast.FuncLit:
				return false
			case *ast.CallExpr:
				if r.isAtomicCall(c) {
					found = true
				}
			}
			return !found
		})
	}
	return found
}

func (r *rw) insertAtomicYields(list []ast.Stmt) []ast.Stmt {
	var out []ast.Stmt
	for _, s := range list {
		if r.stmtHasAtomic(s) {
			out = append(out, &ast.ExprStmt{X: call("Yield", &ast.BasicLit{Kind: token.STRING, Value: `"atomic"`})})
			r.stats["AtomicYield"]++
			r.changed = true
		}
		out = append(out, s)
	}
	return out
}

func (r *rw) node(root ast.Node) ast.Node {
	info := r.info
	return astutil.Apply(root, func(c *astutil.Cursor) bool {
		switch n := c.Node().(type) {
		case *ast.CallExpr:
			s, ok := n.Fun.(*ast.SelectorExpr)
			if !ok {
				return true
			}
			fn, ok := info.Uses[s.Sel].(*types.Func)
			if !ok {
				return true
			}
			full := fn.FullName()
			if target, ok := methodMap[full]; ok {
				recv := r.receiverExpr(s)
				n.Fun = sel(target)
				n.Args = append([]ast.Expr{recv}, n.Args...)
				r.stats[target]++
				r.changed = true
				return true
			}
			if target, ok := funcMap[full]; ok {
				n.Fun = sel(target)
				r.stats[target]++
				r.changed = true
				return true
			}
		case *ast.SelectorExpr:
			// method value of a lock operation (`return mu.Unlock`): wrap the simrt call in a closure
			if fn, ok := info.Uses[n.Sel].(*types.Func); ok {
				if target, ok := resMap[fn.FullName()]; ok {
					c.Replace(sel(target))
					r.stats[target]++
					r.changed = true
					return false
				}
			}
			if call, isCall := c.Parent().(*ast.CallExpr); isCall && call.Fun == n {
				return true
			}
			fn, ok := info.Uses[n.Sel].(*types.Func)
			if !ok {
				return true
			}
			target, ok := methodMap[fn.FullName()]
			if !ok {
				return true
			}
			switch target {
			case "Lock", "Unlock", "RLock", "RUnlock":
			default:
				fail("method value of %s not handled: %s", fn.FullName(), r.pos(n))
			}
			if sl := info.Selections[n]; sl == nil || sl.Kind() != types.MethodVal {
				return true
			}
			recv := r.receiverExpr(n)
			c.Replace(&ast.FuncLit{
				Type: &ast.FuncType{Params: &ast.FieldList{}},
				Body: &ast.BlockStmt{List: []ast.Stmt{&ast.ExprStmt{X: call(target, recv)}}},
			})
			r.stats["MethodValue"]++
			r.changed = true
			return false
		case *ast.SelectStmt:
			tokCounter++
			tok := ast.NewIdent(fmt.Sprintf("simtok%d", tokCounter))
			for _, cl := range n.Body.List {
				cc := cl.(*ast.CommClause)
				// the comm itself stays a raw channel operation
				for i := range cc.Body {
					cc.Body[i] = r.node(cc.Body[i]).(ast.Stmt)
				}
				cc.Body = r.insertAtomicYields(cc.Body)
				after := &ast.ExprStmt{X: call("AfterBlock", tok)}
				cc.Body = append([]ast.Stmt{after}, cc.Body...)
			}
			before := &ast.AssignStmt{Lhs: []ast.Expr{tok}, Tok: token.DEFINE, Rhs: []ast.Expr{call("BeforeBlock")}}
			r.stats["Select"]++
			r.changed = true
			if lab, isLabeled := c.Parent().(*ast.LabeledStmt); isLabeled {
				// `L: select {...}`: keep the label on the select, declare the token before it
				_ = lab
				fail("labeled select not handled: %s", r.pos(n))
			}
			// A select that finds several of its cases ready picks one of them at random inside the Go runtime -
			// the one decision of a run the simulator would not own. With two or more communication cases the
			// select is therefore preceded by one non-blocking attempt per case, in source order: whichever case is
			// ready first in that order is taken; only when none is ready the original select blocks (and is then
			// completed by exactly one event). The clause bodies exist twice in the generated code.
			var comms []*ast.CommClause
			var deflt *ast.CommClause
			for _, cl := range n.Body.List {
				cc := cl.(*ast.CommClause)
				if cc.Comm == nil {
					deflt = cc
				} else {
					comms = append(comms, cc)
				}
			}
			if len(comms) >= 2 {
				for _, cc := range comms {
					ast.Inspect(&ast.BlockStmt{List: cc.Body}, func(x ast.Node) bool {
						if _, isLab := x.(*ast.LabeledStmt); isLab {
							fail("label inside a select clause (the clause body is duplicated): %s", r.pos(n))
						}
						return true
					})
				}
				tokCounter++
				done := ast.NewIdent(fmt.Sprintf("simdone%d", tokCounter))
				list := []ast.Stmt{before,
					&ast.AssignStmt{Lhs: []ast.Expr{done}, Tok: token.DEFINE, Rhs: []ast.Expr{ast.NewIdent("false")}}}
				for _, cc := range comms {
					body := append([]ast.Stmt{&ast.AssignStmt{Lhs: []ast.Expr{done}, Tok: token.ASSIGN, Rhs: []ast.Expr{ast.NewIdent("true")}}}, cc.Body...)
					poll := &ast.SelectStmt{Body: &ast.BlockStmt{List: []ast.Stmt{
						&ast.CommClause{Comm: cc.Comm, Body: body},
						&ast.CommClause{Comm: nil, Body: nil},
					}}}
					list = append(list, &ast.IfStmt{Cond: &ast.UnaryExpr{Op: token.NOT, X: done}, Body: &ast.BlockStmt{List: []ast.Stmt{poll}}})
				}
				var rest ast.Stmt = n
				if deflt != nil {
					// none of the cases was ready: the default clause (its AfterBlock is already at its head)
					rest = &ast.BlockStmt{List: deflt.Body}
				}
				list = append(list, &ast.IfStmt{Cond: &ast.UnaryExpr{Op: token.NOT, X: done}, Body: &ast.BlockStmt{List: []ast.Stmt{rest}}})
				// a select whose clauses all end in return / panic is a terminating statement (a function may end with
				// it); the chain of attempts is not one for the compiler, so it gets an unreachable panic at its end
				terminating := true
				for _, cl := range n.Body.List {
					body := cl.(*ast.CommClause).Body
					if len(body) == 0 {
						terminating = false
						break
					}
					switch last := body[len(body)-1].(type) {
					case *ast.ReturnStmt:
					case *ast.ExprStmt:
						ce, ok := last.X.(*ast.CallExpr)
						id, isID := ast.Expr(nil), false
						if ok {
							id = ce.Fun
							_, isID = id.(*ast.Ident)
						}
						if !ok || !isID || id.(*ast.Ident).Name != "panic" {
							terminating = false
						}
					default:
						terminating = false
					}
				}
				if terminating {
					list = append(list, &ast.ExprStmt{X: &ast.CallExpr{Fun: ast.NewIdent("panic"), Args: []ast.Expr{&ast.BasicLit{Kind: token.STRING, Value: `"simrt: unreachable (select)"`}}}})
				}
				r.stats["SelectPolled"]++
				c.Replace(&ast.BlockStmt{List: list})
				return false
			}
			c.Replace(&ast.BlockStmt{List: []ast.Stmt{before, n}})
			return false
		case *ast.SendStmt:
			tokCounter++
			tok := ast.NewIdent(fmt.Sprintf("simtok%d", tokCounter))
			n.Value = r.node(n.Value).(ast.Expr)
			before := &ast.AssignStmt{Lhs: []ast.Expr{tok}, Tok: token.DEFINE, Rhs: []ast.Expr{call("BeforeBlock")}}
			after := &ast.ExprStmt{X: call("AfterBlock", tok)}
			switch c.Parent().(type) {
			case *ast.ForStmt, *ast.IfStmt, *ast.SwitchStmt, *ast.TypeSwitchStmt, *ast.LabeledStmt:
				fail("send statement in unsupported position: %s", r.pos(n))
			}
			c.Replace(&ast.BlockStmt{List: []ast.Stmt{before, n, after}})
			r.stats["Send"]++
			r.changed = true
			return false
		case *ast.UnaryExpr:
			if n.Op == token.ARROW {
				name := "Recv"
				switch par := c.Parent().(type) {
				case *ast.AssignStmt:
					if len(par.Lhs) == 2 && len(par.Rhs) == 1 {
						name = "Recv2"
					}
				case *ast.ValueSpec:
					if len(par.Names) == 2 && len(par.Values) == 1 {
						name = "Recv2"
					}
				}
				n.X = r.node(n.X).(ast.Expr)
				c.Replace(call(name, n.X))
				r.stats[name]++
				r.changed = true
				return false
			}
		case *ast.RangeStmt:
			t := info.TypeOf(n.X)
			if t == nil {
				return true
			}
			switch u := t.Underlying().(type) {
			case *types.Chan:
				r.rangeChan(c, n)
				return false
			case *types.Map:
				_ = u
				r.rangeMap(c, n)
				return false
			}
		case *ast.GoStmt:
			r.goStmt(c, n)
			return false
		}
		return true
	}, func(c *astutil.Cursor) bool {
		switch n := c.Node().(type) {
		case *ast.ForStmt:
			// a loop without init/post (busy wait, retry loop) yields once per iteration
			if n.Init == nil && n.Post == nil && n.Body != nil {
				y := &ast.ExprStmt{X: call("Yield", &ast.BasicLit{Kind: token.STRING, Value: `"loop"`})}
				n.Body.List = append([]ast.Stmt{y}, n.Body.List...)
				r.stats["LoopYield"]++
				r.changed = true
			}
		case *ast.BlockStmt:
			n.List = r.insertAtomicYields(n.List)
		case *ast.CaseClause:
			n.Body = r.insertAtomicYields(n.Body)
		}
		return true
	})
}

func (r *rw) goStmt(c *astutil.Cursor, n *ast.GoStmt) {
	cl := n.Call
	var pre []ast.Stmt
	tokCounter++
	id := tokCounter
	// evaluate function value (unless a literal) and arguments now
	var fun ast.Expr = cl.Fun
	if lit, ok := cl.Fun.(*ast.FuncLit); ok {
		r.node(lit.Body)
	} else {
		// plain function identifiers / package functions need no capture
		capture := true
		switch f := cl.Fun.(type) {
		case *ast.Ident:
			if _, isFn := r.info.Uses[f].(*types.Func); isFn {
				capture = false
			}
		case *ast.SelectorExpr:
			if _, isPkg := r.info.Uses[f.Sel].(*types.Func); isPkg {
				if _, ok := r.info.Selections[f]; !ok {
					capture = false // qualified package function
				}
			}
		}
		if capture {
			cl.Fun = r.node(cl.Fun).(ast.Expr)
			fv := ast.NewIdent(fmt.Sprintf("simfn%d", id))
			pre = append(pre, &ast.AssignStmt{Lhs: []ast.Expr{fv}, Tok: token.DEFINE, Rhs: []ast.Expr{cl.Fun}})
			fun = fv
		}
	}
	var args []ast.Expr
	for i, a := range cl.Args {
		if tv, ok := r.info.Types[a]; ok && (tv.Value != nil || tv.IsNil()) {
			args = append(args, a)
			continue
		}
		a = r.node(a).(ast.Expr)
		av := ast.NewIdent(fmt.Sprintf("simarg%d_%d", id, i))
		pre = append(pre, &ast.AssignStmt{Lhs: []ast.Expr{av}, Tok: token.DEFINE, Rhs: []ast.Expr{a}})
		args = append(args, av)
	}
	inner := &ast.CallExpr{Fun: fun, Args: args, Ellipsis: cl.Ellipsis}
	if cl.Ellipsis != token.NoPos {
		inner.Ellipsis = 1
	}
	lit := &ast.FuncLit{Type: &ast.FuncType{Params: &ast.FieldList{}}, Body: &ast.BlockStmt{List: []ast.Stmt{&ast.ExprStmt{X: inner}}}}
	stmts := append(pre, &ast.ExprStmt{X: call("Go", lit)})
	c.Replace(&ast.BlockStmt{List: stmts})
	r.stats["Go"]++
	r.changed = true
}

func (r *rw) rangeChan(c *astutil.Cursor, n *ast.RangeStmt) {
	n.X = r.node(n.X).(ast.Expr)
	r.node(n.Body)
	tokCounter++
	okv := ast.NewIdent(fmt.Sprintf("simok%d", tokCounter))
	var lhs ast.Expr = ast.NewIdent("_")
	tok := token.DEFINE
	if n.Key != nil {
		lhs = n.Key
		tok = n.Tok
	}
	var recv ast.Stmt
	if tok == token.ASSIGN {
		// `for v = range ch`: ok must be declared separately
		recv = &ast.BlockStmt{}
		fail("range over channel with '=' not handled: %s", r.pos(n))
	} else {
		recv = &ast.AssignStmt{Lhs: []ast.Expr{lhs, okv}, Tok: token.DEFINE, Rhs: []ast.Expr{call("Recv2", n.X)}}
	}
	brk := &ast.IfStmt{Cond: &ast.UnaryExpr{Op: token.NOT, X: okv}, Body: &ast.BlockStmt{List: []ast.Stmt{&ast.BranchStmt{Tok: token.BREAK}}}}
	body := append([]ast.Stmt{recv, brk}, n.Body.List...)
	c.Replace(&ast.ForStmt{Body: &ast.BlockStmt{List: body}})
	r.stats["RangeChan"]++
	r.changed = true
}

func isBlank(e ast.Expr) bool {
	id, ok := e.(*ast.Ident)
	return ok && id.Name == "_"
}

func (r *rw) rangeMap(c *astutil.Cursor, n *ast.RangeStmt) {
	n.X = r.node(n.X).(ast.Expr)
	r.node(n.Body)
	tokCounter++
	id := tokCounter
	mv := ast.NewIdent(fmt.Sprintf("simmap%d", id))
	kv := ast.NewIdent(fmt.Sprintf("simkey%d", id))
	okv := ast.NewIdent(fmt.Sprintf("simok%d", id))
	hasKey := n.Key != nil && !isBlank(n.Key)
	hasVal := n.Value != nil && !isBlank(n.Value)
	var body []ast.Stmt
	// value (and liveness) lookup
	idx := &ast.IndexExpr{X: mv, Index: kv}
	if hasVal {
		if n.Tok == token.DEFINE {
			body = append(body, &ast.AssignStmt{Lhs: []ast.Expr{n.Value, okv}, Tok: token.DEFINE, Rhs: []ast.Expr{idx}})
		} else {
			body = append(body, &ast.DeclStmt{Decl: &ast.GenDecl{Tok: token.VAR, Specs: []ast.Spec{&ast.ValueSpec{Names: []*ast.Ident{okv}, Type: ast.NewIdent("bool")}}}})
			body = append(body, &ast.AssignStmt{Lhs: []ast.Expr{n.Value, okv}, Tok: token.ASSIGN, Rhs: []ast.Expr{idx}})
		}
	} else {
		body = append(body, &ast.AssignStmt{Lhs: []ast.Expr{ast.NewIdent("_"), okv}, Tok: token.DEFINE, Rhs: []ast.Expr{idx}})
	}
	body = append(body, &ast.IfStmt{Cond: &ast.UnaryExpr{Op: token.NOT, X: okv}, Body: &ast.BlockStmt{List: []ast.Stmt{&ast.BranchStmt{Tok: token.CONTINUE}}}})
	if hasKey {
		body = append(body, &ast.AssignStmt{Lhs: []ast.Expr{n.Key}, Tok: n.Tok, Rhs: []ast.Expr{kv}})
		if n.Tok == token.DEFINE {
			// avoid "declared and not used" when the body never reads the key
			body = append(body, &ast.AssignStmt{Lhs: []ast.Expr{ast.NewIdent("_")}, Tok: token.ASSIGN, Rhs: []ast.Expr{n.Key}})
		}
	}
	if hasVal && n.Tok == token.DEFINE {
		body = append(body, &ast.AssignStmt{Lhs: []ast.Expr{ast.NewIdent("_")}, Tok: token.ASSIGN, Rhs: []ast.Expr{n.Value}})
	}
	body = append(body, n.Body.List...)
	loop := &ast.RangeStmt{Key: ast.NewIdent("_"), Value: kv, Tok: token.DEFINE, X: call("MapKeys", mv), Body: &ast.BlockStmt{List: body}}
	decl := &ast.AssignStmt{Lhs: []ast.Expr{mv}, Tok: token.DEFINE, Rhs: []ast.Expr{n.X}}
	r.stats["RangeMap"]++
	r.changed = true
	if lab, ok := c.Parent().(*ast.LabeledStmt); ok {
		// keep the label on the loop: replace the labeled statement's body with
		// the loop and hoist the map temp by wrapping at the parent level is not
		// possible from here; instead evaluate the map expression inline.
		_ = lab
		loop.X = call("MapKeys", n.X)
		// re-evaluating n.X for the lookup is only safe for side-effect free expressions
		if !pureExpr(n.X) {
			fail("labeled range over map with impure expression: %s", r.pos(n))
		}
		idx.X = n.X
		c.Replace(loop)
		return
	}
	c.Replace(&ast.BlockStmt{List: []ast.Stmt{decl, loop}})
}

func pureExpr(e ast.Expr) bool {
	switch x := e.(type) {
	case *ast.Ident:
		return true
	case *ast.SelectorExpr:
		return pureExpr(x.X)
	case *ast.ParenExpr:
		return pureExpr(x.X)
	case *ast.StarExpr:
		return pureExpr(x.X)
	}
	return false
}

// receiverExpr returns an expression of pointer (or interface) type designating the receiver.
func (r *rw) receiverExpr(s *ast.SelectorExpr) ast.Expr {
	sl := r.info.Selections[s]
	x := s.X
	if sl == nil {
		fail("no selection for %s", r.pos(s))
	}
	t := r.info.TypeOf(x)
	idx := sl.Index()
	for _, i := range idx[:len(idx)-1] {
		st := derefStruct(t)
		fld := st.Field(i)
		x = &ast.SelectorExpr{X: x, Sel: ast.NewIdent(fld.Name())}
		t = fld.Type()
	}
	switch t.Underlying().(type) {
	case *types.Pointer, *types.Interface:
		return x
	default:
		return &ast.UnaryExpr{Op: token.AND, X: x}
	}
}

func derefStruct(t types.Type) *types.Struct {
	if p, ok := t.Underlying().(*types.Pointer); ok {
		t = p.Elem()
	}
	return t.Underlying().(*types.Struct)
}

// stripComments drops ordinary comments (the AST rewrite displaces them) but
// keeps compiler directives and everything before the package clause.
func stripComments(f *ast.File) {
	var keep []*ast.CommentGroup
	for _, g := range f.Comments {
		if g.Pos() < f.Package {
			keep = append(keep, g)
			continue
		}
		for _, c := range g.List {
			if strings.HasPrefix(c.Text, "//go:") || strings.HasPrefix(c.Text, "// +build") || strings.HasPrefix(c.Text, "//line") {
				keep = append(keep, g)
				break
			}
		}
	}
	f.Comments = keep
}

func usesSimrt(f *ast.File) bool {
	found := false
	ast.Inspect(f, func(n ast.Node) bool {
		if se, ok := n.(*ast.SelectorExpr); ok {
			if id, ok := se.X.(*ast.Ident); ok && id.Name == "simrt" {
				found = true
			}
		}
		return !found
	})
	return found
}
