#!/bin/bash
# Runs the thorough tier of every claimed check once (seed from VERIF_SEED, default 1); prints the last lines of each.
cd "$(dirname "$0")/.."
for p in ${@:-C05 C06 C19 C01 C02 C08 C18 C09 C03 C04 C10 C11 C12 C07}; do
  echo "== $p $(date +%H:%M:%S)"
  ./check $p thorough 2>&1 | grep -v "^KNOWN-FINDING" | tail -4 | cut -c1-600
  echo "exit=$?"
done
