#!/usr/bin/env python3
"""Evaluates one seeded change delivered by a sub-agent (directory with patch.diff, README.md, demo files).

usage: seedeval.py <seed_dir> <agent_worktree_path> <PROP> [<PROP>...]

Steps, all in a scratch worktree of /repo's HEAD (never in /repo):
  1. the demonstration of the README (its shell block, paths rewritten to the scratch worktree) on the
     unchanged tree: must pass
  2. git apply (3-way) the patch, go build ./... : must succeed
  3. the demonstration again: must fail
  4. the pinned suite (tools/baseline_check.py) on the patched tree: 597/597
  5. tools/seedcheck.sh <patch> quick <PROP>...: which of our checks report a violation
Prints one JSON line with the outcome of every step. The scratch worktree is removed at the end."""
import json, os, re, subprocess, sys

V = os.path.dirname(os.path.dirname(os.path.abspath(__file__)))
ENV = dict(os.environ, GOFLAGS="-mod=mod", GOPROXY="off", GOSUMDB="off", GOTOOLCHAIN="local")


def sh(cmd, cwd=None, timeout=3600):
    p = subprocess.run(["bash", "-c", cmd], cwd=cwd, env=ENV, stdout=subprocess.PIPE, stderr=subprocess.STDOUT, text=True, timeout=timeout)
    return p.returncode, p.stdout


def demo_block(readme, agent_wt, wt, seed_dir):
    lines = open(readme).read().split("\n")
    idx = next((i for i, l in enumerate(lines) if re.search(r"^\s*(cd .*&& )?go test", l)), None)
    if idx is None:
        return None
    fenced = None
    # fenced block?
    for i in range(idx, -1, -1):
        if lines[i].strip().startswith("```"):
            fenced = i
            break
        if lines[i].strip() == "" and not lines[i - 1].startswith("    ") and i < idx - 1:
            break
    block = []
    if fenced is not None and all(not l.strip().startswith("```") for l in lines[fenced + 1:idx]):
        for l in lines[fenced + 1:]:
            if l.strip().startswith("```"):
                break
            block.append(l)
    else:
        i = idx
        while i > 0 and (lines[i - 1].startswith("    ") or (lines[i - 1].strip() == "" and lines[i - 2].startswith("    "))):
            i -= 1
        j = idx
        while j + 1 < len(lines) and (lines[j + 1].startswith("    ") or lines[j].rstrip().endswith("\\")):
            j += 1
        block = [l[4:] if l.startswith("    ") else l for l in lines[i:j + 1]]
    text = "\n".join(block)
    text = text.replace(agent_wt, wt)
    # demo files named without a directory are in the seed directory
    lines = []
    for l in text.split("\n"):
        if re.search(r"\bcp\b", l):
            for fn in os.listdir(seed_dir):
                l = re.sub(r"(?<![\w/.-])" + re.escape(fn) + r"(?![\w.-])", os.path.join(seed_dir, fn), l)
        lines.append(l)
    text = "\n".join(lines)
    # a block that runs the demo both ways: keep the part before the patch is applied
    keep, seen_test = [], False
    for l in text.split("\n"):
        if re.search(r"\bgit( -C \S+)? apply\b", l):
            if seen_test:
                break
            # "apply the patch first (omit for the unchanged run)": the patch is applied by this tool
            l = re.sub(r"(&&\s*)?git( -C \S+)? apply[^#&;]*", "", l)
        if re.search(r"\bgo test\b", l):
            seen_test = True
        keep.append(l)
    text = "\n".join(keep)
    # drop clean-up lines: the worktree is thrown away anyway, and a failing demo must keep its exit status
    text = "\n".join(l for l in text.split("\n") if not re.match(r"^\s*\(?(rm|git -C .* checkout)\b", l))
    return "set -o pipefail\n" + text


def main():
    seed_dir, agent_wt, props = sys.argv[1], sys.argv[2], sys.argv[3:]
    res = {"seed": seed_dir, "props": props}
    wt = "/tmp/sv-%d" % os.getpid()
    rebased = os.path.join("/tmp", os.path.basename(os.path.dirname(os.path.abspath(seed_dir))) + "-" + os.path.basename(os.path.abspath(seed_dir))) + ".rebased"
    rc, out = sh("git -C /repo worktree add -q --detach %s HEAD" % wt)
    if rc != 0:
        print(json.dumps({"error": "worktree: " + out}))
        sys.exit(2)
    try:
        block = demo_block(os.path.join(seed_dir, "README.md"), agent_wt, wt, seed_dir)
        res["demo_cmd"] = block
        if block:
            rc, out = sh(block, cwd=wt, timeout=1800)
            res["demo_unchanged_rc"] = rc
            res["demo_unchanged_tail"] = out[-600:]
        patch = os.path.join(seed_dir, "patch.diff")
        rc, out = sh("git apply --3way %s 2>&1 || git apply %s" % (patch, patch), cwd=wt)
        res["apply_rc"] = rc
        if rc != 0:
            res["apply_out"] = out[-800:]
            print(json.dumps(res))
            return
        rc, out = sh("go build ./... 2>&1 | tail -5", cwd=wt)
        res["build_rc"] = rc
        res["build_out"] = out[-400:]
        if block:
            rc, out = sh(block, cwd=wt, timeout=1800)
            res["demo_patched_rc"] = rc
            res["demo_patched_tail"] = out[-900:]
        # the patch as it applies to the current HEAD (the agent's base may be older); demo files are untracked
        sh("git diff HEAD > %s" % rebased, cwd=wt)
        if os.environ.get("SEED_SKIP_BASELINE") != "1":
            # the suite binds fixed TCP ports: one run at a time on this machine
            rc, out = sh("flock /tmp/verif-baseline.lock python3 %s/tools/baseline_check.py %s" % (V, wt), timeout=7200)
            res["baseline_rc"] = rc
            res["baseline_tail"] = out[-300:]
    finally:
        sh("git -C /repo worktree remove --force %s" % wt)
    res["rebased_patch"] = rebased
    if props and os.path.exists(rebased) and os.path.getsize(rebased) > 0:
        rc, out = sh("%s/tools/seedcheck.sh %s quick %s" % (V, rebased, " ".join(props)), timeout=3600)
        res["checks"] = [l for l in out.split("\n") if re.search(r"DETECTED|missed|ERROR", l)]
    print(json.dumps(res))


main()
