#!/usr/bin/env python3
"""Copies an evaluated seeded change into /verif/seeded/<PROP>/<n>/ (patch.diff rebased on the evaluated HEAD,
the demonstration files, the sub-agent's README and meta.json with what was run and observed).
usage: seedkeep.py <seed_dir> <eval_json> <PROP> <n> [note]"""
import json, os, re, shutil, subprocess, sys

V = os.path.dirname(os.path.dirname(os.path.abspath(__file__)))
seed_dir, eval_json, prop, n = sys.argv[1:5]
note = sys.argv[5] if len(sys.argv) > 5 else ""
r = json.loads(open(eval_json).read().strip().split("\n")[-1])
dst = os.path.join(V, "seeded", prop, n)
os.makedirs(dst, exist_ok=True)
reb = r.get("rebased_patch")
shutil.copy(reb if reb and os.path.exists(reb) and os.path.getsize(reb) > 0 else os.path.join(seed_dir, "patch.diff"), os.path.join(dst, "patch.diff"))
for fn in os.listdir(seed_dir):
    p = os.path.join(seed_dir, fn)
    if fn == "patch.diff" or os.path.isdir(p):
        continue
    if fn.endswith(".go") or fn == "README.md" or fn.endswith(".sh"):
        shutil.copy(p, os.path.join(dst, fn))
readme = open(os.path.join(seed_dir, "README.md")).read() if os.path.exists(os.path.join(seed_dir, "README.md")) else ""
m = re.search(r"(?ims)^#+\s*(what is needed[^\n]*|needs[^\n]*|what it needs[^\n]*)\n(.*?)(?=^#|\Z)", readme)
needs = (m.group(2).strip()[:1500] if m else "")
head = subprocess.run(["git", "-C", "/repo", "log", "--format=%h", "-n1"], stdout=subprocess.PIPE, text=True).stdout.strip()
meta = {
    "property": prop,
    "source": "fresh sub-agent given only the property text and its own scratch worktree of lindb",
    "title": readme.split("\n")[0].lstrip("# ").strip(),
    "needs_to_manifest": needs,
    "confirmed_by_me": {
        "repo_head_when_evaluated": head,
        "patch_applies_and_builds": r.get("apply_rc") == 0 and r.get("build_rc") == 0,
        "demonstration_on_unchanged_tree": "passes" if r.get("demo_unchanged_rc") == 0 else "rc=%s" % r.get("demo_unchanged_rc"),
        "demonstration_with_patch": "fails" if r.get("demo_patched_rc") not in (0, None) else "rc=%s" % r.get("demo_patched_rc"),
        "demonstration_command": r.get("demo_cmd"),
        "pinned_suite_with_patch": (r.get("baseline_tail") or "").split("\n")[0],
        "how": "tools/seedeval.py in a scratch worktree of /repo (removed afterwards); never applied in /repo",
    },
    "checks_run_against_it": r.get("checks"),
    "note": note,
}
json.dump(meta, open(os.path.join(dst, "meta.json"), "w"), indent=1)
print(dst, meta["confirmed_by_me"]["demonstration_with_patch"], meta["checks_run_against_it"])
