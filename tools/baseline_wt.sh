#!/bin/bash
# Runs the pinned suite (guard off) on a scratch worktree of /repo's HEAD so that the suite's side effects
# (it rewrites config/*.toml.example) never touch /repo. usage: tools/baseline_wt.sh
set -u
WT=/tmp/basewt-$$
git -C /repo worktree add -q --detach $WT HEAD || exit 2
python3 /verif/tools/baseline_check.py $WT; rc=$?
git -C /repo worktree remove --force $WT
exit $rc
