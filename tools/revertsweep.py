#!/usr/bin/env python3
"""For every repaired defect listed in known_findings.json ("fixed: property=<id> <commit> ..."): revert that
commit in a scratch worktree of /repo's HEAD and run the property's check against it (tools/seedcheck.sh).
A repaired defect that comes back must be reported. usage: revertsweep.py [tier] [jobs]  -> one line per fix"""
import json, os, re, subprocess, sys, concurrent.futures
V = os.path.dirname(os.path.dirname(os.path.abspath(__file__)))
tier = sys.argv[1] if len(sys.argv) > 1 else "quick"
jobs = int(sys.argv[2]) if len(sys.argv) > 2 else 3
fixed = json.load(open(os.path.join(V, "known_findings.json")))["fixed"]
items = []
for line in fixed:
    m = re.match(r"fixed: property=(C\d+) ([0-9a-f]{7})\b(.*)", line)
    if m:
        props = [m.group(1)] + re.findall(r"\((?:also|found by) (C\d+)", m.group(3)[:80])
        items.append((m.group(2), sorted(set(props)), m.group(3)[:90]))

def one(it):
    commit, props, what = it
    wt = "/tmp/rv-%s" % commit
    subprocess.run(["git", "-C", "/repo", "worktree", "add", "-q", "--detach", wt, "HEAD"], check=True)
    try:
        p = subprocess.run(["git", "-C", wt, "revert", "--no-commit", commit], stdout=subprocess.PIPE, stderr=subprocess.STDOUT, text=True)
        if p.returncode != 0:
            return "%s %s REVERT-CONFLICT (later fixes touch the same lines)" % (commit, ",".join(props))
        diff = subprocess.run(["git", "-C", wt, "diff", "--cached"], stdout=subprocess.PIPE, text=True).stdout
        patch = "/tmp/rv-%s.diff" % commit
        open(patch, "w").write(diff)
    finally:
        subprocess.run(["git", "-C", "/repo", "worktree", "remove", "--force", wt])
    out = subprocess.run([os.path.join(V, "tools/seedcheck.sh"), patch, tier] + props, stdout=subprocess.PIPE, stderr=subprocess.STDOUT, text=True).stdout
    res = [l[:200] for l in out.split("\n") if re.search(r"DETECTED|missed|ERROR", l)]
    return "%s %s | %s" % (commit, ",".join(props), " ; ".join(res))

with concurrent.futures.ThreadPoolExecutor(max_workers=jobs) as ex:
    for line in ex.map(one, items):
        print(line, flush=True)
