#!/bin/bash
# Evaluates a seeded change without touching /repo: applies the patch in a scratch worktree and runs checks against it.
# usage: seedcheck.sh <patch.diff> <tier> <PROP>...      (prints one line per property: DETECTED / missed)
set -u
V=$(cd "$(dirname "$0")/.." && pwd)   # the checkout this tool belongs to (a snapshot of /verif works too)
PATCH=$(readlink -f "$1"); TIER=$2; shift 2
WT=/tmp/seedwt-$$
git -C /repo worktree add -q --detach $WT HEAD || exit 2
trap 'git -C /repo worktree remove --force $WT >/dev/null 2>&1; rm -rf /tmp/seedbuild-$$' EXIT
git -C $WT apply "$PATCH" || { echo "seedcheck: patch does not apply"; exit 2; }
export VERIF_REPO=$WT VERIF_BUILD=/tmp/seedbuild-$$
mkdir -p $VERIF_BUILD
for P in "$@"; do
  OUT=$(cd $V && VERIF_EVIDENCE_DIR=$VERIF_BUILD/evidence VERIF_REPLAY_DIR=$VERIF_BUILD/replays ./check $P $TIER 2>&1); RC=$?
  [ -n "${KEEP_REPLAYS:-}" ] && mkdir -p "$KEEP_REPLAYS" && cp $VERIF_BUILD/replays/*.json "$KEEP_REPLAYS"/ 2>/dev/null
  if [ $RC -eq 1 ]; then echo "$P DETECTED: $(echo "$OUT" | grep '^violation' | head -2 | tr '\n' ' ' | cut -c1-300)";
  elif [ $RC -eq 0 ]; then echo "$P missed ($(echo "$OUT" | tail -1 | cut -c1-120))";
  else echo "$P ERROR rc=$RC: $(echo "$OUT" | tail -3 | tr '\n' ' ' | cut -c1-400)"; fi
done
