// Package core holds what all harnesses share: plans (the replayable input of
// one simulated run), results, the registry, and the in-bubble runner.
package core

import (
	commontimeutil "github.com/lindb/common/pkg/timeutil"

	"encoding/json"
	"fmt"
	"math/rand"
	"os"
	"sort"
	"strings"
	"testing"
	"testing/synctest"
	"time"

	"github.com/google/uuid"

	"verifsim/simrt"
)

// Op is one generated workload step.  A fixed small shape keeps shrinking generic.
type Op struct {
	K string `json:"k"`           // kind
	T int    `json:"t,omitempty"` // task / target index
	A int64  `json:"a,omitempty"`
	B int64  `json:"b,omitempty"`
	C int64  `json:"c,omitempty"`
	S string `json:"s,omitempty"`
}

func (o Op) String() string {
	s := o.K
	if o.T != 0 {
		s += fmt.Sprintf(" t=%d", o.T)
	}
	if o.A != 0 {
		s += fmt.Sprintf(" a=%d", o.A)
	}
	if o.B != 0 {
		s += fmt.Sprintf(" b=%d", o.B)
	}
	if o.C != 0 {
		s += fmt.Sprintf(" c=%d", o.C)
	}
	if o.S != "" {
		s += " s=" + o.S
	}
	return s
}

// Plan is the complete, replayable description of one run.
type Plan struct {
	Harness string         `json:"harness"`
	Prop    string         `json:"property"`
	Seed    int64          `json:"seed"`
	Tier    string         `json:"tier,omitempty"`
	Cfg     map[string]int `json:"cfg"`
	Ops     []Op           `json:"ops"`
	Tape    [][2]int       `json:"tape"` // sparse (position, value), sorted by position
	Replay  bool           `json:"-"`
}

func (p *Plan) C(name string, def int) int {
	if v, ok := p.Cfg[name]; ok {
		return v
	}
	return def
}

func (p *Plan) Clone() *Plan {
	q := *p
	q.Cfg = map[string]int{}
	for k, v := range p.Cfg {
		q.Cfg[k] = v
	}
	q.Ops = append([]Op(nil), p.Ops...)
	q.Tape = append([][2]int(nil), p.Tape...)
	return &q
}

// Result of one run (one JSON line on the worker's output).
type Result struct {
	Prop      string         `json:"property"`
	Harness   string         `json:"harness"`
	Seed      int64          `json:"seed"`
	Sig       string         `json:"sig,omitempty"`    // violation signature ("" = held)
	Detail    string         `json:"detail,omitempty"` // human readable
	Anomaly   string         `json:"anomaly,omitempty"`
	End       string         `json:"end"`
	Digest    string         `json:"digest"`
	Sched     string         `json:"sched"`
	Steps     int            `json:"steps"`
	Yields    int            `json:"yields"`
	Preempts  int            `json:"preempts"`
	Switches  int            `json:"switches"`
	SimMs     int64          `json:"sim_ms"`
	WallUs    int64          `json:"wall_us"`
	Oracles   int            `json:"oracles"`
	NOps      int            `json:"nops"`
	Faults    map[string]int `json:"faults,omitempty"`
	Probes    map[string]int `json:"probes,omitempty"`
	States    []string       `json:"states,omitempty"` // digests of distinct states (disk images …)
	Plan      *Plan          `json:"plan,omitempty"`
	TraceTail []string       `json:"trace_tail,omitempty"`
}

// RunCtx is what a harness sees.
type RunCtx struct {
	Sim      *simrt.Sim
	Plan     *Plan
	Dir      string
	Res      *Result
	stateSet map[string]bool
}

// Violate records the first violation of the run.
func (c *RunCtx) Violate(sig, format string, a ...any) {
	if c.Res.Sig == "" {
		c.Res.Sig = sig
		c.Res.Detail = fmt.Sprintf(format, a...)
		c.Sim.Event("VIOLATION %s", sig)
	}
}

func (c *RunCtx) Violated() bool { return c.Res.Sig != "" }

// Anomaly: the run could not be judged (harness trouble); reported loudly, never as violation.
func (c *RunCtx) Anomaly(format string, a ...any) {
	if c.Res.Anomaly == "" {
		c.Res.Anomaly = fmt.Sprintf(format, a...)
	}
}

func (c *RunCtx) Oracle() { c.Res.Oracles++ }

func (c *RunCtx) State(digest string) {
	if c.stateSet == nil {
		c.stateSet = map[string]bool{}
	}
	if !c.stateSet[digest] && len(c.stateSet) < 512 {
		c.stateSet[digest] = true
		c.Res.States = append(c.Res.States, digest)
	}
}

// Harness is one simulated system + workload + oracle.
type Harness interface {
	Name() string
	// Gen creates the workload and knobs of a run from the PRNG.
	Gen(prop string, rng *rand.Rand, tier string) *Plan
	// Run executes the plan as the main task of the simulation.
	Run(c *RunCtx)
	// EndOK classifies how the scheduler ended ("stuck", "steps", "idle"):
	// return a violation signature, or "" with anomaly text, or both empty if fine.
	End(c *RunCtx, end string) (sig string, anomaly string)
}

// Expander is implemented by harnesses that enumerate a finite fault space
// around one generated history (e.g. every crash point of it).
type Expander interface {
	Expand(plan *Plan, first *Result) []*Plan
}

var registry = map[string]Harness{}

func Register(h Harness) { registry[h.Name()] = h }
func Get(name string) Harness {
	return registry[name]
}
func Names() []string {
	var n []string
	for k := range registry {
		n = append(n, k)
	}
	sort.Strings(n)
	return n
}

var runCounter int

// Execute runs one plan in a fresh bubble and returns its result.
func Execute(t *testing.T, h Harness, plan *Plan) *Result {
	res := &Result{Prop: plan.Prop, Harness: plan.Harness, Seed: plan.Seed, NOps: len(plan.Ops)}
	runCounter++
	dir, err := os.MkdirTemp("/dev/shm", fmt.Sprintf("verif-%s-%d-", plan.Harness, os.Getpid()))
	if err != nil {
		res.Anomaly = "mkdtemp: " + err.Error()
		return res
	}
	defer os.RemoveAll(dir)
	// the zone of the simulated node(s), see zones.go
	defer func(l *time.Location) { time.Local = l }(time.Local)
	if z := Zone(plan); z != time.UTC {
		time.Local = z
	}
	wall := time.Now()
	var tape *simrt.Tape
	func() {
		defer func() {
			if e := recover(); e != nil {
				msg := fmt.Sprint(e)
				if !strings.Contains(msg, "deadlock: main bubble goroutine has exited") {
					if res.Anomaly == "" {
						res.Anomaly = "panic outside tasks: " + msg
					}
				}
			}
		}()
		synctest.Test(t, func(t *testing.T) {
			// package-level math/rand and uuid are part of the run's inputs (GODEBUG=randseednop=0)
			rand.Seed(plan.Seed*31 + 7) //nolint
			commontimeutil.VerifNanoTick = 0
			uuid.SetRand(rand.New(rand.NewSource(plan.Seed*131 + 3)))
			if plan.Replay {
				rec := map[int]int{}
				for _, e := range plan.Tape {
					rec[e[0]] = e[1]
				}
				tape = simrt.NewReplayTape(rec)
			} else {
				tape = simrt.NewGenTape(plan.Seed*7919 + 17)
				tape.PreemptP = float64(plan.C("preempt_pm", 50)) / 1000
				tape.MaxPreempts = plan.C("max_preempts", -1)
				tape.SwitchP = float64(plan.C("switch_pm", 200)) / 1000
				tape.FaultP = float64(plan.C("fault_pm", 50)) / 1000
			}
			sim := simrt.New(tape)
			sim.MaxSteps = plan.C("max_steps", 400000)
			sim.MapOrder = plan.C("maporder", 0) == 1
			ctx := &RunCtx{Sim: sim, Plan: plan, Dir: dir, Res: res}
			if z := Zone(plan); z != time.UTC {
				sim.Probe("zone-" + z.String())
			}
			mainDone := false
			sim.SpawnIn(0, "main", func() {
				defer func() { sim.Stop = true }() // also when the harness panics: the run is over, not spinning to the step limit
				h.Run(ctx)
				mainDone = true
			})
			end := sim.Run()
			res.End = end
			if !mainDone {
				sig, an := h.End(ctx, end)
				if sig != "" && res.Sig == "" {
					res.Sig = sig
					res.Detail = fmt.Sprintf("scheduler ended with %q: %s", end, sim.TaskDump())
				}
				if an != "" && res.Anomaly == "" {
					res.Anomaly = fmt.Sprintf("%s (end=%s tasks: %s)", an, end, sim.TaskDump())
				}
			}
			if len(sim.PanicTasks) > 0 && res.Sig == "" {
				res.Anomaly = "task panic: " + sim.PanicTasks[0] + " || " + res.Anomaly
			}
			res.Digest = sim.Digest()
			res.Sched = sim.SchedDigest()
			res.Steps = sim.Steps
			res.Yields = sim.Yields
			res.Preempts = sim.Preempts
			res.Switches = sim.Switches
			res.SimMs = sim.Elapsed().Milliseconds()
			res.Faults = sim.Faults
			res.Probes = sim.Probes
			tr := sim.Trace()
			if os.Getenv("VERIF_TRACE") != "" {
				res.TraceTail = tr
			} else if res.Sig != "" || res.Anomaly != "" {
				if len(tr) > 80 {
					tr = tr[len(tr)-80:]
				}
				res.TraceTail = tr
			}
		})
	}()
	// the run is over and nothing of it executes again: release what its (killed) incarnations left open
	simrt.ReleaseResources()
	res.WallUs = time.Since(wall).Microseconds()
	if tape != nil && !plan.Replay {
		rec := tape.Record()
		plan.Tape = plan.Tape[:0]
		for _, p := range tape.Positions() {
			plan.Tape = append(plan.Tape, [2]int{p, rec[p]})
		}
	}
	return res
}

func MarshalLine(v any) string {
	b, err := json.Marshal(v)
	if err != nil {
		return fmt.Sprintf(`{"anomaly":"marshal: %s"}`, err)
	}
	return string(b)
}
