package core

import (
	"encoding/json"
	"math/rand"
	"os"
	"testing"
)

// GenPlan derives the whole plan of a run from one integer.
func GenPlan(h Harness, prop string, seed int64, tier string) *Plan {
	rng := rand.New(rand.NewSource(seed))
	p := h.Gen(prop, rng, tier)
	p.Seed = seed
	p.Tier = tier
	if p.Prop == "" {
		p.Prop = prop
	}
	return p
}

// ReplayFile is what /verif/replays/*.json contain.
type ReplayFile struct {
	Property string   `json:"property"`
	Sig      string   `json:"signature"`
	Detail   string   `json:"detail"`
	Digest   string   `json:"digest"`
	Plan     *Plan    `json:"plan"`
	Trace    []string `json:"trace_tail,omitempty"`
}

func LoadPlan(path string) (*Plan, error) {
	b, err := os.ReadFile(path)
	if err != nil {
		return nil, err
	}
	var rf ReplayFile
	if err := json.Unmarshal(b, &rf); err != nil {
		return nil, err
	}
	if rf.Plan == nil {
		// a bare plan
		var p Plan
		if err := json.Unmarshal(b, &p); err != nil {
			return nil, err
		}
		rf.Plan = &p
	}
	rf.Plan.Replay = true
	return rf.Plan, nil
}

// Shrink minimises a failing plan while the same signature persists: drop
// operations, drop tape entries (preemptions, faults), lower numeric arguments.
func Shrink(t *testing.T, h Harness, plan *Plan, sig string, budget int) (*Plan, *Result, int) {
	runs := 0
	try := func(p *Plan) *Result {
		runs++
		q := p.Clone()
		q.Replay = true
		return Execute(t, h, q)
	}
	best := plan.Clone()
	best.Replay = true
	bestRes := try(best)
	if sig == "" {
		sig = bestRes.Sig
	}
	if bestRes.Sig != sig || sig == "" {
		return best, bestRes, runs
	}
	improved := true
	for improved && runs < budget {
		improved = false
		// 1. delete chunks of ops
		for size := len(best.Ops) / 2; size >= 1 && runs < budget; size /= 2 {
			for i := 0; i+size <= len(best.Ops) && runs < budget; {
				cand := best.Clone()
				cand.Ops = append(append([]Op(nil), best.Ops[:i]...), best.Ops[i+size:]...)
				if r := try(cand); r.Sig == sig {
					best, bestRes, improved = cand, r, true
				} else {
					i += size
				}
			}
		}
		// 2. delete chunks of tape entries
		for size := len(best.Tape); size >= 1 && runs < budget; size /= 2 {
			for i := 0; i+size <= len(best.Tape) && runs < budget; {
				cand := best.Clone()
				cand.Tape = append(append([][2]int(nil), best.Tape[:i]...), best.Tape[i+size:]...)
				if r := try(cand); r.Sig == sig {
					best, bestRes, improved = cand, r, true
				} else {
					i += size
				}
			}
		}
		// 3. lower numeric arguments
		for i := range best.Ops {
			if runs >= budget {
				break
			}
			for _, f := range []int{0, 1} {
				cand := best.Clone()
				v := &cand.Ops[i].A
				if f == 1 {
					v = &cand.Ops[i].C
				}
				if *v <= 1 {
					continue
				}
				*v = *v / 2
				if r := try(cand); r.Sig == sig {
					best, bestRes, improved = cand, r, true
				}
			}
		}
	}
	best.Replay = true
	return best, bestRes, runs
}
