package core

import "time"

// Zones of a plan (cfg "tz", index; 0 = UTC): lindb computes segments (day / month / year stores) and families (hour / day
// of month / month) in the node's LOCAL time (the pkg/timeutil calculators and the statement parser use time.Local), so
// the zone is part of the configuration a run explores: whole-hour offsets east and west (the latter put the simulated
// "now", 2000-01-01T00:00Z, into the previous local day and year), half-hour offsets (hour families that do not start on
// an hour of the epoch), zones with daylight saving. time.Local is process-wide in Go; a worker executes one run at a time.
var ZoneNames = []string{"UTC", "Asia/Shanghai", "Asia/Kolkata", "Europe/Berlin", "America/New_York", "America/St_Johns"}

var Zones = func() []*time.Location {
	var r []*time.Location
	for _, n := range ZoneNames {
		l, err := time.LoadLocation(n)
		if err != nil {
			panic(err)
		}
		r = append(r, l)
	}
	return r
}()

// Zone of a plan.
func Zone(p *Plan) *time.Location { return Zones[p.C("tz", 0)%len(Zones)] }

// GenZone: UTC in half of the plans, one of the others otherwise (stored only when it is not UTC).
func GenZone(p *Plan, draw func(n int) int) {
	if draw(2) == 0 {
		return
	}
	p.Cfg["tz"] = 1 + draw(len(Zones)-1)
}
