// Package kvs simulates the kv store: C01 (crash atomicity/durability of
// commits) and C02 (snapshot stability and file liveness under concurrency).
package kvs

import (
	"encoding/binary"
	"fmt"
	"path/filepath"
	"sort"
	"strconv"
	"strings"

	"github.com/lindb/lindb/kv"
	"github.com/lindb/lindb/kv/table"
	"github.com/lindb/lindb/kv/version"
)

const MergerName = "verif_token_union"

func init() {
	kv.RegisterMerger(MergerName, func(flusher kv.Flusher) (kv.Merger, error) {
		return &tokenMerger{flusher: flusher}, nil
	})
}

// A value is a sorted set of tokens.  token = id(8) padLen(2) pad(padLen) where pad
// is a pattern of the id.  Merge = set union, so the content of a key is invariant
// under compaction and independent of the order in which files are visited.
type tokenMerger struct{ flusher kv.Flusher }

func (m *tokenMerger) Init(map[string]interface{}) {}

func (m *tokenMerger) Merge(key uint32, values [][]byte) error {
	set := map[uint64]int{}
	for _, v := range values {
		toks, ok := decodeValue(v)
		if !ok {
			return fmt.Errorf("verif merger: corrupt value for key %d", key)
		}
		for id, pad := range toks {
			set[id] = pad
		}
	}
	return m.flusher.Add(key, encodeValue(set))
}

func encodeValue(set map[uint64]int) []byte {
	ids := make([]uint64, 0, len(set))
	for id := range set {
		ids = append(ids, id)
	}
	sort.Slice(ids, func(i, j int) bool { return ids[i] < ids[j] })
	var out []byte
	for _, id := range ids {
		pad := set[id]
		var h [10]byte
		binary.LittleEndian.PutUint64(h[:], id)
		binary.LittleEndian.PutUint16(h[8:], uint16(pad))
		out = append(out, h[:]...)
		for i := 0; i < pad; i++ {
			out = append(out, byte((int(id)*13+i*5)%251))
		}
	}
	return out
}

func decodeValue(v []byte) (map[uint64]int, bool) {
	set := map[uint64]int{}
	for len(v) > 0 {
		if len(v) < 10 {
			return nil, false
		}
		id := binary.LittleEndian.Uint64(v)
		pad := int(binary.LittleEndian.Uint16(v[8:]))
		v = v[10:]
		if len(v) < pad {
			return nil, false
		}
		for i := 0; i < pad; i++ {
			if v[i] != byte((int(id)*13+i*5)%251) {
				return nil, false
			}
		}
		v = v[pad:]
		if _, dup := set[id]; dup {
			return nil, false
		}
		set[id] = pad
	}
	return set, true
}

// content of one family: key -> token id -> pad
type content map[uint32]map[uint64]int

func (c content) clone() content {
	n := content{}
	for k, s := range c {
		m := map[uint64]int{}
		for id, p := range s {
			m[id] = p
		}
		n[k] = m
	}
	return n
}

func (c content) add(k uint32, id uint64, pad int) {
	if c[k] == nil {
		c[k] = map[uint64]int{}
	}
	c[k][id] = pad
}

func (c content) equal(o content) bool {
	if len(c) != len(o) {
		return false
	}
	for k, s := range c {
		t, ok := o[k]
		if !ok || len(s) != len(t) {
			return false
		}
		for id, p := range s {
			if q, ok := t[id]; !ok || p != q {
				return false
			}
		}
	}
	return true
}

func (c content) String() string {
	keys := make([]int, 0, len(c))
	for k := range c {
		keys = append(keys, int(k))
	}
	sort.Ints(keys)
	var sb strings.Builder
	for _, k := range keys {
		ids := make([]int, 0)
		for id := range c[uint32(k)] {
			ids = append(ids, int(id))
		}
		sort.Ints(ids)
		fmt.Fprintf(&sb, "%d:%v ", k, ids)
	}
	return sb.String()
}

// readFamily reads the whole observable content of a family through a snapshot:
// by file iteration (every file of the current version) and by key lookup.
func readFamily(f kv.Family, universe []uint32) (byIter content, byLoad content, seqs map[int32]int64, files []table.FileNumber, err error) {
	snap := f.GetSnapshot()
	defer snap.Close()
	byIter, byLoad = content{}, content{}
	cur := snap.GetCurrent()
	for _, fm := range cur.GetAllFiles() {
		files = append(files, fm.GetFileNumber())
		r, e := snap.GetReader(fm.GetFileNumber())
		if e != nil {
			return nil, nil, nil, nil, fmt.Errorf("file %d referenced by the version cannot be opened: %v", fm.GetFileNumber(), e)
		}
		it := r.Iterator()
		for it.HasNext() {
			k, v := it.Key(), it.Value()
			toks, ok := decodeValue(v)
			if !ok {
				return nil, nil, nil, nil, fmt.Errorf("file %d key %d: value is not what was written (%d bytes)", fm.GetFileNumber(), k, len(v))
			}
			for id, p := range toks {
				byIter.add(k, id, p)
			}
			if k < fm.GetMinKey() || k > fm.GetMaxKey() {
				return nil, nil, nil, nil, fmt.Errorf("file %d key %d outside its recorded range [%d,%d]", fm.GetFileNumber(), k, fm.GetMinKey(), fm.GetMaxKey())
			}
		}
	}
	for _, k := range universe {
		e := snap.Load(k, func(v []byte) error {
			toks, ok := decodeValue(v)
			if !ok {
				return fmt.Errorf("key %d: value is not what was written (%d bytes)", k, len(v))
			}
			for id, p := range toks {
				byLoad.add(k, id, p)
			}
			return nil
		})
		if e != nil {
			return nil, nil, nil, nil, e
		}
	}
	seqs = map[int32]int64{}
	for l, s := range cur.GetSequences() {
		seqs[l] = s
	}
	sort.Slice(files, func(i, j int) bool { return files[i] < files[j] })
	return
}

func tableNumber(path string) (int64, bool) {
	base := filepath.Base(path)
	if !strings.HasSuffix(base, ".sst") {
		return 0, false
	}
	n, err := strconv.ParseInt(strings.TrimSuffix(base, ".sst"), 10, 64)
	return n, err == nil
}

var _ = version.Options
