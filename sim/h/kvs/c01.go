package kvs

import (
	"fmt"
	"math/rand"
	"os"
	"path/filepath"
	"sort"
	"strings"

	"github.com/lindb/lindb/kv"
	"github.com/lindb/lindb/kv/table"
	"github.com/lindb/lindb/kv/version"
	"github.com/lindb/lindb/pkg/timeutil"

	"verifsim/core"
)

type H struct{}

func init() { core.Register(H{}) }

func (H) Name() string { return "kvs" }

func (H) Gen(prop string, rng *rand.Rand, tier string) *core.Plan {
	if prop == "C02" {
		return genC02(rng, tier)
	}
	return genC01(rng, tier)
}

func (H) Run(c *core.RunCtx) {
	if c.Plan.Prop == "C02" {
		runC02(c)
		return
	}
	runC01(c)
}

func (H) End(c *core.RunCtx, end string) (string, string) {
	return "", "scheduler ended before the harness finished"
}

// Expand: complete enumeration of the crash points of one history (fan-out).
func (H) Expand(plan *core.Plan, first *core.Result) []*core.Plan {
	if plan.Prop != "C01" || plan.C("crash_at", 0) != 0 || plan.C("ioerr_pm", 0) != 0 {
		return nil
	}
	n := first.Probes["fsops"]
	var out []*core.Plan
	step := 1
	if max := plan.C("max_points", 0); max > 0 && n > max {
		step = (n + max - 1) / max
	}
	for k := 1 + plan.C("offset", 0)%step; k <= n; k += step {
		p := plan.Clone()
		p.Cfg["crash_at"] = k
		if plan.C("par", 0) == 0 {
			p.Tape = nil
		} // else: the same schedule up to the crash
		out = append(out, p)
	}
	return out
}

var keyUniverse = []uint32{0, 1, 2, 3, 5, 8, 13, 21, 34, 55, 100, 65535, 65536, 65537, 70000, 131072, 1 << 20, 1<<32 - 1}

func genC01(rng *rand.Rand, tier string) *core.Plan {
	p := &core.Plan{Harness: "kvs", Prop: "C01", Cfg: map[string]int{}}
	p.Cfg["preempt_pm"] = 0
	p.Cfg["switch_pm"] = 0
	p.Cfg["threshold"] = []int{0, 2, 3}[rng.Intn(3)]
	p.Cfg["maxfile"] = []int{0, 0, 300, 2000}[rng.Intn(4)]
	p.Cfg["rollup"] = rng.Intn(3) / 2 // 1/3 of the histories carry rollup bookkeeping
	if tier == "thorough" {
		// chained crashes: the enumerated first crash is followed by up to two more,
		// placed a few file-system operations after the previous one (inside recovery)
		if rng.Intn(2) == 0 {
			p.Cfg["crash2"] = 1 + rng.Intn(12)
			if rng.Intn(2) == 0 {
				p.Cfg["crash3"] = 1 + rng.Intn(12)
			}
		}
	} else {
		p.Cfg["max_points"] = 60
		p.Cfg["offset"] = rng.Intn(1000)
		if rng.Intn(4) == 0 {
			p.Cfg["crash2"] = 1 + rng.Intn(10)
		}
	}
	fams := 1 + rng.Intn(2)
	par := rng.Intn(3) == 0
	ioerr := !par && rng.Intn(5) == 0
	if ioerr {
		// a fifth of the sequential histories: no process death, instead up to 1-3 file-system operations inside
		// flushes and compactions fail with an I/O error (disk full); judged apart from the crash histories
		p.Cfg["ioerr_pm"] = []int{20, 60, 150}[rng.Intn(3)]
		p.Cfg["ioerr_max"] = 1 + rng.Intn(3)
		delete(p.Cfg, "crash2")
		delete(p.Cfg, "crash3")
	}
	if par {
		// flushers of several families run at the same time: the schedule matters
		fams = 3 + rng.Intn(2)
		p.Cfg["par"] = 1
		p.Cfg["preempt_pm"] = []int{5, 30, 100}[rng.Intn(3)]
		p.Cfg["switch_pm"] = 300
	}
	n := 3 + rng.Intn(8)
	for f := 0; f < fams; f++ {
		p.Ops = append(p.Ops, core.Op{K: "family", T: f})
	}
	tok := int64(0)
	for i := 0; i < n; i++ {
		f := rng.Intn(fams)
		switch r := rng.Intn(100); {
		case r < 25 && par:
			p.Ops = append(p.Ops, core.Op{K: "pflush", T: f, A: int64(1 + rng.Intn(4)), B: int64(rng.Intn(4) | rng.Intn(2)<<3),
				C: []int64{0, 7, 100, 900}[rng.Intn(4)], S: fmt.Sprint(rng.Intn(1 << 30))})
		case r < 55:
			nk := 1 + rng.Intn(6)
			flags := int64(0)
			if rng.Intn(3) == 0 {
				flags |= 1 // stream writer for odd positions
			}
			if rng.Intn(3) == 0 {
				flags |= 2 // carry a sequence
			}
			if rng.Intn(12) == 0 {
				flags |= 4 // sequence only
			}
			pad := []int64{0, 0, 7, 100, 900, 3000}[rng.Intn(6)]
			tok += 10
			p.Ops = append(p.Ops, core.Op{K: "flush", T: f, A: int64(nk), B: flags, C: pad, S: fmt.Sprint(rng.Intn(1 << 30))})
		case r < 75:
			p.Ops = append(p.Ops, core.Op{K: "compact", T: f})
		case r < 83:
			p.Ops = append(p.Ops, core.Op{K: "tick"})
		case r < 88 && p.Cfg["rollup"] == 1:
			p.Ops = append(p.Ops, core.Op{K: "rollup"})
		default:
			p.Ops = append(p.Ops, core.Op{K: "reopen"})
		}
	}
	p.Ops = append(p.Ops, core.Op{K: "flush", T: 0, A: 2, B: 2, C: 0, S: "7"}, core.Op{K: "reopen"})
	return p
}

// ---- model ------------------------------------------------------------------

type famModel struct {
	data content
	seqs map[int32]int64
}

func (m *famModel) clone() *famModel {
	n := &famModel{data: m.data.clone(), seqs: map[int32]int64{}}
	for k, v := range m.seqs {
		n.seqs[k] = v
	}
	return n
}

type c01 struct {
	c        *core.RunCtx
	base     string
	srcName  string // store path (== store name)
	tgtName  string
	mgr      kv.StoreManager
	store    kv.Store
	target   kv.Store
	fams     map[int]bool      // families created (committed)
	model    map[int]*famModel // committed content
	pending  map[int]*famModel // content if the operation in flight took effect (nil = none in flight)
	pendFam  int               // family being created by the op in flight (-1 none)
	tgtUpper content           // upper bound for the rollup target family content
	fsops    int
	crashAt  int
	crashed  bool
	inc      int
	refd     map[string]bool // family/fileNumber referenced by the recovered/current versions
	nextTok  uint64
	rollup   bool
	// I/O error histories: alts[f] = further contents family f may show (a flush whose commit reported an
	// injected I/O error took effect or not; decided for good only by a reopen)
	alts     map[int][]*famModel
	ioP      float64
	ioMax    int
	ioArmed  bool
	injected int
}

func famName(i int) string { return fmt.Sprintf("%d", 1+i) } // numeric names: the rollup code parses them as family time

func (h *c01) pre(op, path string) {
	sim := h.c.Sim
	if h.crashed || sim.CurInc() != h.inc {
		return
	}
	h.fsops++
	if op == "create" {
		if n, ok := tableNumber(path); ok {
			key := filepath.Base(filepath.Dir(path)) + "/" + fmt.Sprint(n)
			storeKey := filepath.Dir(filepath.Dir(path)) + "|" + key
			if h.refd[storeKey] {
				h.c.Violate("C01/file-number-reused", "new table %s reuses the number of a file the store's current state references", path)
			}
		}
	}
	if h.crashAt > 0 && h.fsops == h.crashAt {
		h.crashed = true
		sim.Fault("crash@" + op)
		sim.Event("crash before fs op #%d %s %s", h.fsops, op, strings.TrimPrefix(path, h.base))
		sim.Kill(h.inc)
	}
}

// fail decides whether a file-system operation of the store fails with an I/O error instead of running.
func (h *c01) fail(op, path string) error {
	sim := h.c.Sim
	if !h.ioArmed || h.injected >= h.ioMax || h.crashed || sim.CurInc() != h.inc {
		return nil
	}
	if !sim.Tape.Chance(h.ioP) {
		return nil
	}
	h.injected++
	sim.Fault("io-error@" + op)
	sim.Event("injected I/O error at %s %s", op, strings.TrimPrefix(path, h.base))
	return fmt.Errorf("%s %s: injected: no space left on device", op, filepath.Base(path))
}

func (h *c01) storeOption(src bool) kv.StoreOption {
	o := kv.DefaultStoreOption()
	if h.rollup && src {
		// day-calculator source (10s) rolled up into a month-calculator target (5m)
		o.Source = timeutil.Interval(10 * 1000)
		o.Rollup = []timeutil.Interval{timeutil.Interval(5 * 60 * 1000)}
	}
	return o
}

func (h *c01) familyOption() kv.FamilyOption {
	return kv.FamilyOption{Merger: MergerName, CompactThreshold: h.c.Plan.C("threshold", 0), MaxFileSize: uint32(h.c.Plan.C("maxfile", 0)), RollupThreshold: 1}
}

// open (re)opens the stores with a fresh store manager, as a restarted process does.
func (h *c01) open() error {
	h.mgr = kv.VerifNewStoreManager()
	kv.InitStoreManager(h.mgr)
	var err error
	if h.rollup {
		if h.target, err = h.mgr.CreateStore(h.tgtName, h.storeOption(false)); err != nil {
			return fmt.Errorf("target store: %w", err)
		}
	}
	if h.store, err = h.mgr.CreateStore(h.srcName, h.storeOption(true)); err != nil {
		return err
	}
	return nil
}

func (h *c01) refreshRefs() {
	h.refd = map[string]bool{}
	for _, st := range []kv.Store{h.store, h.target} {
		if st == nil {
			continue
		}
		for _, name := range st.ListFamilyNames() {
			f := st.GetFamily(name)
			snap := f.GetSnapshot()
			for _, fm := range snap.GetCurrent().GetAllFiles() {
				h.refd[st.Path()+"|"+name+"/"+fmt.Sprint(fm.GetFileNumber().Int64())] = true
			}
			snap.Close()
		}
	}
}

// verify compares the observable state of the store with the model(s).
// afterCrash: the operation in flight may have taken effect entirely or not at all.
func (h *c01) verify(when string, afterCrash bool) {
	c := h.c
	c.Oracle()
	got := map[int]*famModel{}
	names := h.store.ListFamilyNames()
	sort.Strings(names)
	have := map[string]bool{}
	for _, n := range names {
		have[n] = true
	}
	for i := range h.fams {
		if !have[famName(i)] {
			c.Violate("C01/family-lost", "%s: family %s is gone (families: %v)", when, famName(i), names)
			return
		}
	}
	for i := 0; i < 4; i++ {
		if !have[famName(i)] {
			continue
		}
		if !h.fams[i] && !(afterCrash && h.pendFam == i) {
			c.Violate("C01/phantom-family", "%s: family %s exists but was never created", when, famName(i))
			return
		}
		f := h.store.GetFamily(famName(i))
		byIter, byLoad, seqs, files, err := readFamily(f, keyUniverse)
		if err != nil {
			c.Violate("C01/unreadable-state", "%s: family %s: %v", when, famName(i), err)
			return
		}
		if !byIter.equal(byLoad) {
			c.Violate("C01/lookup-differs-from-files", "%s: family %s: iteration of the version's files gives {%s} but key lookup gives {%s}", when, famName(i), byIter, byLoad)
			return
		}
		for _, fn := range files {
			if _, err := os.Stat(filepath.Join(h.store.Path(), famName(i), version.Table(fn))); err != nil {
				c.Violate("C01/referenced-file-missing", "%s: family %s references table %d which does not exist", when, famName(i), fn)
				return
			}
		}
		got[i] = &famModel{data: byIter, seqs: seqs}
		h.fams[i] = true
	}
	matchOne := func(i int, w, g *famModel) (bool, string) {
		if w == nil {
			w = &famModel{data: content{}, seqs: map[int32]int64{}}
		}
		if g == nil {
			return false, fmt.Sprintf("family %s missing", famName(i))
		}
		if !w.data.equal(g.data) {
			return false, fmt.Sprintf("family %s holds {%s}, expected {%s}", famName(i), g.data, w.data)
		}
		if len(w.seqs) != len(g.seqs) {
			return false, fmt.Sprintf("family %s sequences %v, expected %v", famName(i), g.seqs, w.seqs)
		}
		for l, s := range w.seqs {
			if g.seqs[l] != s {
				return false, fmt.Sprintf("family %s sequences %v, expected %v", famName(i), g.seqs, w.seqs)
			}
		}
		return true, ""
	}
	picked := map[int]*famModel{}
	match := func(want map[int]*famModel) (bool, string) {
		for i := 0; i < 4; i++ {
			if !h.fams[i] {
				continue
			}
			ok, why := matchOne(i, want[i], got[i])
			for _, a := range h.alts[i] {
				if ok {
					break
				}
				if ok2, _ := matchOne(i, a, got[i]); ok2 {
					ok, picked[i] = true, a
				}
			}
			if !ok {
				if n := len(h.alts[i]); n > 0 {
					why += fmt.Sprintf(" (or one of %d other contents allowed after a flush that reported an I/O error)", n)
				}
				return false, why
			}
		}
		return true, ""
	}
	okOld, why := match(h.model)
	if !okOld && afterCrash && h.pending != nil {
		// every family on its own shows the state before or after the operation that was in flight on it
		// (parallel flushes: any subset of them may have committed)
		mixed := map[int]*famModel{}
		for i := range h.fams {
			pick := h.model[i]
			if g := got[i]; g != nil {
				if ok1, _ := matchOne(i, h.model[i], g); !ok1 {
					if ok2, _ := matchOne(i, h.pending[i], g); ok2 {
						pick = h.pending[i]
					}
				}
			}
			if pick != nil {
				mixed[i] = pick
			}
		}
		if okNew, _ := match(mixed); okNew {
			h.model = mixed
			c.Sim.Probe("inflight-op-survived")
			okOld = true
		}
	} else if okOld && afterCrash && h.pending != nil {
		c.Sim.Probe("inflight-op-lost")
	}
	h.pending = nil
	h.pendFam = -1
	if okOld && strings.Contains(when, "reopen") {
		// what a flush with a failed commit left behind is decided now
		for i, a := range picked {
			h.model[i] = a
			c.Sim.Probe("failed-flush-took-effect")
		}
		h.alts = map[int][]*famModel{}
	}
	if !okOld {
		sig := "C01/content-mismatch"
		if afterCrash {
			sig = "C01/content-mismatch-after-crash"
		}
		c.Violate(sig, "%s: %s", when, why)
		return
	}
	if h.target != nil {
		// rollup bookkeeping: the target may hold any subset of whole source files' tokens,
		// never anything else
		for _, name := range h.target.ListFamilyNames() {
			byIter, byLoad, _, _, err := readFamily(h.target.GetFamily(name), keyUniverse)
			if err != nil {
				c.Violate("C01/unreadable-state", "%s: rollup target family %s: %v", when, name, err)
				return
			}
			if !byIter.equal(byLoad) {
				c.Violate("C01/lookup-differs-from-files", "%s: rollup target family %s", when, name)
				return
			}
			for k, s := range byIter {
				for id := range s {
					if _, ok := h.tgtUpper[k][id]; !ok {
						c.Violate("C01/content-mismatch", "%s: rollup target holds token %d under key %d that no source file contained", when, id, k)
						return
					}
				}
			}
		}
	}
	h.refreshRefs()
}

func runC01(c *core.RunCtx) {
	sim := c.Sim
	h := &c01{c: c, base: c.Dir, fams: map[int]bool{}, model: map[int]*famModel{}, pendFam: -1, tgtUpper: content{}, refd: map[string]bool{}}
	h.rollup = c.Plan.C("rollup", 0) == 1
	// directory names the rollup code parses: <base>/day/20000101 -> <base>/month/200001
	h.srcName = filepath.Join(c.Dir, "db", "day", "20000101")
	h.tgtName = filepath.Join(c.Dir, "db", "month", "200001")
	crashes := []int{c.Plan.C("crash_at", 0)}
	if crashes[0] > 0 {
		if d := c.Plan.C("crash2", 0); d > 0 {
			crashes = append(crashes, d)
			if d3 := c.Plan.C("crash3", 0); d3 > 0 {
				crashes = append(crashes, d3)
			}
		}
	}
	kv.VerifSetFS(h.pre)
	version.VerifSetFS(h.pre)
	table.VerifSetFS(h.pre)
	h.alts = map[int][]*famModel{}
	if pm := c.Plan.C("ioerr_pm", 0); pm > 0 {
		h.ioP, h.ioMax = float64(pm)/1000, c.Plan.C("ioerr_max", 1)
		// table files and file removal only. Not the manifest: what a manifest record that was written but whose
		// fsync failed means is not something the statement decides (observed: lindb reports the commit as
		// failed, later removes the table as garbage, and the next open finds the record - see DESIGN 10.2)
		kv.VerifSetFSFail(func(op, path string) error {
			if op != "remove" {
				return nil
			}
			return h.fail(op, path)
		})
		table.VerifSetFSFail(h.fail)
	}
	defer func() {
		kv.VerifSetFS(nil)
		version.VerifSetFS(nil)
		table.VerifSetFS(nil)
		kv.VerifSetFSFail(nil)
		version.VerifSetFSFail(nil)
		table.VerifSetFSFail(nil)
	}()

	next := 0 // next op to run
	opened := false
	for incarnation := 0; ; incarnation++ {
		h.inc = sim.NewIncarnation()
		h.crashed = false
		h.crashAt = 0
		if incarnation < len(crashes) && crashes[incarnation] > 0 {
			if incarnation == 0 {
				h.crashAt = crashes[0]
			} else {
				h.crashAt = h.fsops + crashes[incarnation]
			}
		}
		finished := false
		recovering := incarnation > 0
		sim.SpawnIn(h.inc, fmt.Sprintf("driver%d", incarnation), func() {
			if !opened || recovering {
				if err := h.open(); err != nil {
					if !h.crashed {
						c.Violate("C01/reopen-failed", "opening the store (incarnation %d) failed: %v", incarnation, err)
					}
					finished = true
					return
				}
				opened = true
				h.verify(fmt.Sprintf("after restart #%d", incarnation), recovering)
				if c.Violated() {
					finished = true
					return
				}
			}
			for next < len(c.Plan.Ops) && !c.Violated() {
				op := c.Plan.Ops[next]
				next++
				h.runOp(op)
			}
			finished = true
		})
		sim.Await(func() bool { return finished || h.crashed })
		if !h.crashed || c.Violated() {
			break
		}
		if incarnation > 6 {
			break
		}
	}
	sim.Probes["fsops"] = h.fsops
	sim.Probes[fmt.Sprintf("ops-%d", len(c.Plan.Ops))] = 1
}

func (h *c01) runOp(op core.Op) {
	c, sim := h.c, h.c.Sim
	sim.Event("op %s", op.String())
	fam := op.T % 4
	switch op.K {
	case "family":
		if h.fams[fam] {
			return
		}
		h.pendFam = fam
		h.pending = h.cloneModel()
		if _, err := h.store.CreateFamily(famName(fam), h.familyOption()); err != nil {
			c.Anomaly("CreateFamily: %v", err)
			return
		}
		h.fams[fam] = true
		h.pending, h.pendFam = nil, -1
	case "flush":
		if !h.fams[fam] {
			return
		}
		pm := h.cloneModel()
		h.pending = pm
		if h.ioP > 0 {
			var extra []*famModel
			for _, a := range h.alts[fam] {
				extra = append(extra, a.clone())
			}
			inj0 := h.injected
			h.ioArmed = true
			err := h.doFlushErr(fam, op, pm, extra)
			h.ioArmed = false
			switch {
			case c.Violated():
				return
			case err == nil:
				h.model = pm
				h.alts[fam] = extra
			case h.injected > inj0:
				// the commit reported the failure: the flush took effect entirely or not at all
				sim.Probe("flush-failed-by-io-error")
				sim.Event("flush failed: %v", err)
				if !strings.HasPrefix(err.Error(), "add: ") {
					h.alts[fam] = append(append(h.alts[fam], pm[fam]), extra...)
				} // else: abandoned before its commit, nothing of it may show
				if len(h.alts[fam]) > 16 {
					h.alts[fam] = h.alts[fam][:16]
				}
			default:
				c.Violate("C01/commit-failed", "flush returned %v although no fault was injected into it", err)
				return
			}
			h.pending = nil
			h.verify("after flush", false)
			return
		}
		if !h.doFlush(fam, op, pm) {
			return
		}
		h.model = pm
		h.pending = nil
		h.verify("after flush", false)
	case "pflush":
		// 2-3 flushers on different families of one store at the same time (under the seeded schedule): they share
		// the store's file number allocator, manifest and version set
		var fams []int
		for i := 0; i < 4 && len(fams) < 2+int(op.B>>3&1); i++ {
			if f := (fam + i) % 4; h.fams[f] {
				fams = append(fams, f)
			}
		}
		if len(fams) < 2 {
			return
		}
		pm := h.cloneModel()
		h.pending = pm
		running, failed := len(fams), false
		sim.Fault("parallel-flush")
		for j, f := range fams {
			sub := op
			sub.T, sub.S, sub.B = f, op.S+fmt.Sprint(j), op.B&3
			f := f
			sim.SpawnIn(h.inc, fmt.Sprintf("flusher%d", j), func() {
				if !h.doFlush(f, sub, pm) {
					failed = true
				}
				running--
			})
		}
		sim.Await(func() bool { return running == 0 || h.crashed })
		if h.crashed || failed || c.Violated() {
			return
		}
		h.model = pm
		h.pending = nil
		h.verify("after parallel flushes", false)
	case "compact":
		if !h.fams[fam] {
			return
		}
		f := h.store.GetFamily(famName(fam))
		h.pending = h.cloneModel() // content-neutral
		h.ioArmed = h.ioP > 0
		f.Compact()
		sim.Await(func() bool { return !kv.VerifFamilyBusy(f) })
		h.ioArmed = false
		h.pending = nil
		h.verify("after compaction", false)
	case "tick":
		h.pending = h.cloneModel()
		h.ioArmed = h.ioP > 0
		kv.VerifStoreCompact(h.store)
		h.awaitIdle()
		h.ioArmed = false
		h.pending = nil
		h.verify("after compaction tick", false)
	case "rollup":
		h.pending = h.cloneModel()
		h.ioArmed = h.ioP > 0
		h.store.ForceRollup()
		h.awaitIdle()
		h.ioArmed = false
		h.pending = nil
		h.verify("after rollup", false)
	case "reopen":
		h.pending = h.cloneModel()
		if err := h.mgr.CloseStore(h.srcName); err != nil {
			c.Anomaly("CloseStore: %v", err)
			return
		}
		if h.target != nil {
			_ = h.mgr.CloseStore(h.tgtName)
		}
		sim.Fault("close-reopen")
		if err := h.open(); err != nil {
			c.Violate("C01/reopen-failed", "reopen after clean close failed: %v", err)
			return
		}
		h.pending = nil
		h.verify("after close+reopen", false)
	}
}

// doFlush writes one generated flush into the family and commits it; pm receives its effect.
func (h *c01) doFlush(fam int, op core.Op, pm map[int]*famModel) bool {
	err := h.doFlushErr(fam, op, pm, nil)
	if err != nil && !h.c.Violated() {
		if strings.HasPrefix(err.Error(), "add: ") {
			h.c.Anomaly("flush %v", err)
		} else {
			h.c.Violate("C01/commit-failed", "flush commit returned %v without any injected fault", err)
		}
	}
	return err == nil
}

// doFlushErr writes one generated flush and returns the error of Add / Commit; the flush's effect is applied to
// pm[fam] and to every model in extra.
func (h *c01) doFlushErr(fam int, op core.Op, pm map[int]*famModel, extra []*famModel) error {
	f := h.store.GetFamily(famName(fam))
	rng := rand.New(rand.NewSource(int64(len(op.S))*7919 + atoiSafe(op.S)))
	keys := append([]uint32(nil), keyUniverse...)
	rng.Shuffle(len(keys), func(i, j int) { keys[i], keys[j] = keys[j], keys[i] })
	nk := int(op.A)
	if nk > len(keys) {
		nk = len(keys)
	}
	keys = keys[:nk]
	sort.Slice(keys, func(i, j int) bool { return keys[i] < keys[j] })
	if pm[fam] == nil {
		pm[fam] = &famModel{data: content{}, seqs: map[int32]int64{}}
	}
	fl := f.NewFlusher()
	seqOnly := op.B&4 != 0
	var err error
	if !seqOnly {
		for i, k := range keys {
			h.nextTok++
			id := h.nextTok
			pad := int(op.C)
			val := encodeValue(map[uint64]int{id: pad})
			pm[fam].data.add(k, id, pad)
			for _, e := range extra {
				e.data.add(k, id, pad)
			}
			h.tgtUpper.add(k, id, pad)
			if op.B&1 != 0 && i%2 == 1 {
				var sw table.StreamWriter
				if sw, err = fl.StreamWriter(); err == nil {
					sw.Prepare(k)
					half := len(val) / 2
					if _, err = sw.Write(val[:half]); err == nil {
						_, err = sw.Write(val[half:])
					}
					if err == nil {
						err = sw.Commit()
					}
				}
			} else {
				err = fl.Add(k, val)
			}
			if err != nil {
				break
			}
		}
	}
	if op.B&2 != 0 || seqOnly {
		// (the sequence is part of the flush's effect also when an Add already failed: all or nothing)
		leader := int32(1 + op.A%2)
		seq := int64(h.nextTok) + 100
		pm[fam].seqs[leader] = seq
		for _, e := range extra {
			e.seqs[leader] = seq
		}
		if err == nil {
			fl.Sequence(leader, seq)
		}
	}
	if err != nil {
		fl.Release()
		return fmt.Errorf("add: %w", err)
	}
	err = fl.Commit()
	fl.Release()
	return err
}

func (h *c01) awaitIdle() {
	// predicates run on the scheduler goroutine and must not take locks: list the
	// families here (task context), wait on the atomic busy flags, repeat until stable.
	for round := 0; round < 10; round++ {
		var fams []kv.Family
		for _, st := range []kv.Store{h.store, h.target} {
			if st == nil {
				continue
			}
			for _, n := range st.ListFamilyNames() {
				fams = append(fams, st.GetFamily(n))
			}
		}
		busy := false
		for _, f := range fams {
			if kv.VerifFamilyBusy(f) {
				busy = true
			}
		}
		if !busy && round > 0 {
			return
		}
		h.c.Sim.Await(func() bool {
			for _, f := range fams {
				if kv.VerifFamilyBusy(f) {
					return false
				}
			}
			return true
		})
	}
}

func (h *c01) cloneModel() map[int]*famModel {
	m := map[int]*famModel{}
	for k, v := range h.model {
		m[k] = v.clone()
	}
	return m
}

func atoiSafe(s string) int64 {
	var n int64
	for _, ch := range s {
		if ch >= '0' && ch <= '9' {
			n = n*10 + int64(ch-'0')
		}
	}
	return n
}
