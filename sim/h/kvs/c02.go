package kvs

import (
	"errors"
	"fmt"
	"math/rand"
	"path/filepath"
	"runtime/debug"
	"sort"
	"time"

	"github.com/lindb/common/pkg/ltoml"

	"github.com/lindb/lindb/kv"
	"github.com/lindb/lindb/kv/table"
	"github.com/lindb/lindb/kv/version"
	"github.com/lindb/lindb/pkg/timeutil"

	"verifsim/core"
	"verifsim/simrt"
)

// ---- C02: snapshot stability and file liveness under concurrency --------------

func genC02(rng *rand.Rand, tier string) *core.Plan {
	p := &core.Plan{Harness: "kvs", Prop: "C02", Cfg: map[string]int{}}
	p.Cfg["preempt_pm"] = []int{5, 20, 60, 150}[rng.Intn(4)]
	p.Cfg["switch_pm"] = []int{50, 200, 500}[rng.Intn(3)]
	p.Cfg["threshold"] = []int{0, 2, 2, 3}[rng.Intn(4)]
	p.Cfg["maxfile"] = []int{0, 0, 300}[rng.Intn(3)]
	p.Cfg["ttl_ms"] = []int{10, 1000, 3600000}[rng.Intn(3)]
	p.Cfg["rollup"] = rng.Intn(3) / 2
	readers := 1 + rng.Intn(3)
	flushers := 1 + rng.Intn(2)
	p.Cfg["readers"] = readers
	p.Cfg["flushers"] = flushers
	// preload: some committed files before the concurrent phase
	for i := rng.Intn(4); i > 0; i-- {
		p.Ops = append(p.Ops, core.Op{K: "pre", A: int64(1 + rng.Intn(4)), C: []int64{0, 7, 200}[rng.Intn(3)], S: fmt.Sprint(rng.Intn(1 << 30))})
	}
	for f := 0; f < flushers; f++ {
		for i := 1 + rng.Intn(4); i > 0; i-- {
			p.Ops = append(p.Ops, core.Op{K: "flush", T: f, A: int64(1 + rng.Intn(5)), C: []int64{0, 7, 200, 1500}[rng.Intn(4)], S: fmt.Sprint(rng.Intn(1 << 30))})
		}
	}
	for r := 0; r < readers; r++ {
		for i := 1 + rng.Intn(3); i > 0; i-- {
			// A = number of re-reads while holding, B = read style (0 FindReaders+Get, 1 Load, 2 iterate files), C = hold time ms
			p.Ops = append(p.Ops, core.Op{K: "snap", T: r, A: int64(1 + rng.Intn(3)), B: int64(rng.Intn(3)), C: []int64{0, 1, 50, 5000}[rng.Intn(4)]})
		}
	}
	for i := 1 + rng.Intn(6); i > 0; i-- {
		p.Ops = append(p.Ops, core.Op{K: []string{"compact", "tick", "tick", "jump", "rollup"}[rng.Intn(5)], A: []int64{1, 20, 2000, 4000000}[rng.Intn(4)]})
	}
	p.Cfg["maporder"] = rng.Intn(2) // tape-chosen iteration order of Go maps in the code under test
	p.Cfg["dblclose"] = rng.Intn(2)
	p.Cfg["ioerr_pm"] = []int{0, 0, 0, 60, 250}[rng.Intn(5)] // opening (mapping) a table file fails with an I/O error: the read fails, nothing else may
	return p
}

type commitRec struct {
	id         int
	toks       map[uint32]uint64 // key -> token
	invokedAt  int
	returnedAt int // 0 = not yet
}

type heldSnap struct {
	files    map[int64]bool // files of the version at acquisition
	acquired map[int64]bool // files whose reader the snapshot handed out
}

type c02 struct {
	c         *core.RunCtx
	store     kv.Store
	fam       kv.Family
	famDir    string
	clock     int
	commits   []*commitRec
	held      map[int]*heldSnap // reader task -> snapshot it holds
	writing   map[int64]int     // table number -> flusher task writing it (until its commit returned)
	rollupLv  map[int64]bool    // files registered for rollup (never rolled up here: must stay)
	createdBy map[int]int64     // simulator task id -> last table it created
	nextTok   uint64
	rollup    bool
	openFails int // injected failures of opening a table file so far
}

func (h *c02) tick() int { h.clock++; return h.clock }

// pre is the file-system seam monitor: (b) liveness of files.
func (h *c02) pre(op, path string) {
	n, isTable := tableNumber(path)
	if !isTable || filepath.Dir(path) != h.famDir {
		return
	}
	sim := h.c.Sim
	sim.Event("fs %s table %d by task %d", op, n, sim.CurTask())
	switch op {
	case "create":
		h.createdBy[sim.CurTask()] = n
	case "remove":
		sim.Probe("table-removed")
		for r, hs := range h.held {
			if hs.files[n] {
				h.c.Violate("C02/file-of-open-snapshot-deleted", "table %d is deleted while reader %d holds a snapshot whose version contains it", n, r)
				return
			}
		}
		if _, ok := h.writing[n]; ok {
			h.c.Violate("C02/file-of-unfinished-writer-deleted", "table %d is deleted while its writer has not committed yet", n)
			return
		}
		if h.rollupLv[n] {
			h.c.Violate("C02/pending-rollup-file-deleted", "table %d is deleted while it is still registered for a rollup that has not happened", n)
			return
		}
	case "unmap":
		sim.Probe("table-unmapped")
		for r, hs := range h.held {
			if hs.acquired[n] {
				h.c.Violate("C02/file-of-open-snapshot-unmapped", "table %d is unmapped while reader %d still holds a snapshot that handed out its reader", n, r)
				return
			}
		}
	}
}

func (h *c02) flush(task int, op core.Op, concurrent bool) {
	c := h.c
	rng := rand.New(rand.NewSource(atoiSafe(op.S) + 31*int64(len(op.S))))
	keys := append([]uint32(nil), keyUniverse[:12]...)
	rng.Shuffle(len(keys), func(i, j int) { keys[i], keys[j] = keys[j], keys[i] })
	nk := int(op.A)
	if nk > len(keys) {
		nk = len(keys)
	}
	if nk < 1 {
		nk = 1
	}
	keys = keys[:nk]
	sort.Slice(keys, func(i, j int) bool { return keys[i] < keys[j] })
	rec := &commitRec{id: len(h.commits), toks: map[uint32]uint64{}}
	h.commits = append(h.commits, rec)
	fl := h.fam.NewFlusher()
	// the table is created at the first Add; the seam monitor records which task created which table
	me := c.Sim.CurTask()
	delete(h.createdBy, me)
	for _, k := range keys {
		h.nextTok++
		rec.toks[k] = h.nextTok
		if err := fl.Add(k, encodeValue(map[uint64]int{h.nextTok: int(op.C)})); err != nil {
			c.Anomaly("Add: %v", err)
			fl.Release()
			return
		}
		if n, ok := h.createdBy[me]; ok {
			h.writing[n] = task
		}
	}
	mine := h.createdBy[me]
	rec.invokedAt = h.tick()
	c.Sim.Event("commit %d invoke (table %d)", rec.id, mine)
	err := fl.Commit()
	rec.returnedAt = h.tick()
	if h.rollup {
		h.rollupLv[mine] = true
	}
	delete(h.writing, mine)
	fl.Release()
	c.Sim.Event("commit %d returned", rec.id)
	if err != nil {
		c.Violate("C02/commit-failed", "flush commit returned %v", err)
	}
}

func (h *c02) read(snap version.Snapshot, hs *heldSnap, style int64) (content, error) {
	got := content{}
	switch style {
	case 1:
		for _, k := range keyUniverse[:12] {
			err := snap.Load(k, func(v []byte) error {
				toks, ok := decodeValue(v)
				if !ok {
					return fmt.Errorf("key %d: bytes read are not a written value", k)
				}
				for id, p := range toks {
					got.add(k, id, p)
				}
				return nil
			})
			if err != nil {
				return nil, err
			}
		}
	case 2:
		for _, fm := range snap.GetCurrent().GetAllFiles() {
			r, err := snap.GetReader(fm.GetFileNumber())
			if err != nil {
				return nil, fmt.Errorf("reader of table %d: %v", fm.GetFileNumber(), err)
			}
			hs.acquired[fm.GetFileNumber().Int64()] = true
			it := r.Iterator()
			for it.HasNext() {
				k, v := it.Key(), it.Value() // iterator protocol: Key then Value, once each
				toks, ok := decodeValue(v)
				if !ok {
					return nil, fmt.Errorf("table %d key %d: bytes read are not a written value", fm.GetFileNumber(), k)
				}
				for id, p := range toks {
					got.add(k, id, p)
				}
			}
		}
	default:
		for _, k := range keyUniverse[:12] {
			readers, err := snap.FindReaders(k)
			if err != nil {
				return nil, fmt.Errorf("FindReaders(%d): %v", k, err)
			}
			for _, r := range readers {
				if n, ok := tableNumber(r.FileName()); ok {
					hs.acquired[n] = true
				}
				v, err := r.Get(k)
				if err != nil {
					continue
				}
				toks, ok := decodeValue(v)
				if !ok {
					return nil, fmt.Errorf("key %d in %s: bytes read are not a written value", k, r.FileName())
				}
				for id, p := range toks {
					got.add(k, id, p)
				}
			}
		}
	}
	return got, nil
}

func (h *c02) readerTask(r int, ops []core.Op) {
	c := h.c
	defer func() {
		if e := recover(); e != nil {
			c.Violate("C02/read-faulted", "reader %d: %v\n%s", r, e, debug.Stack())
		}
	}()
	debug.SetPanicOnFault(true)
	for _, op := range ops {
		if c.Violated() {
			return
		}
		invoked := h.tick()
		snap := h.fam.GetSnapshot()
		returned := h.tick()
		hs := &heldSnap{files: map[int64]bool{}, acquired: map[int64]bool{}}
		for _, fm := range snap.GetCurrent().GetAllFiles() {
			hs.files[fm.GetFileNumber().Int64()] = true
		}
		h.held[r] = hs
		c.Sim.Event("reader %d snapshot version=%d files=%v", r, snap.GetCurrent().ID(), sortedKeys(hs.files))
		fails0 := h.openFails
		first, err := h.read(snap, hs, op.B)
		if err != nil && h.openFails > fails0 {
			// the read failed because a table file could not be opened (injected): the reader gives up this snapshot;
			// everybody else's files must stay alive all the same
			c.Sim.Probe("read-failed-by-open-error")
			// (the snapshot counts as held until Close is invoked, not until it has returned: Close has scheduling
			// points, and once the version is released a compaction may remove its files at once)
			delete(h.held, r)
			snap.Close()
			continue
		}
		if err != nil {
			c.Violate("C02/snapshot-read-failed", "reader %d first read: %v", r, err)
			delete(h.held, r)
			snap.Close()
			return
		}
		c.Oracle()
		// visibility bounds and atomic visibility of each commit
		for _, cm := range h.commits {
			present, absent := 0, 0
			for k, tok := range cm.toks {
				if _, ok := first[k][tok]; ok {
					present++
				} else {
					absent++
				}
			}
			if present > 0 && absent > 0 {
				c.Violate("C02/commit-partially-visible", "reader %d sees %d of %d keys of commit %d", r, present, present+absent, cm.id)
			} else if absent > 0 && cm.returnedAt != 0 && cm.returnedAt < invoked {
				c.Violate("C02/completed-commit-invisible", "reader %d took its snapshot after commit %d had returned but does not see it", r, cm.id)
			} else if present > 0 && (cm.invokedAt == 0 || cm.invokedAt > returned) {
				c.Violate("C02/uncommitted-data-visible", "reader %d sees commit %d whose Commit had not been invoked when the snapshot was taken", r, cm.id)
			}
		}
		total := 0
		for _, s := range first {
			total += len(s)
		}
		want := 0
		for _, cm := range h.commits {
			for k, tok := range cm.toks {
				if _, ok := first[k][tok]; ok {
					want++
				}
			}
		}
		if total != want {
			c.Violate("C02/unknown-data-visible", "reader %d sees %d tokens of which only %d belong to known commits", r, total, want)
		}
		for i := int64(0); i < op.A && !c.Violated(); i++ {
			if op.C > 0 {
				simrt.Sleep(time.Duration(op.C) * time.Millisecond)
			} else {
				c.Sim.YieldNow()
			}
			fails1 := h.openFails
			again, err := h.read(snap, hs, (op.B+i+1)%3)
			if err != nil && h.openFails > fails1 {
				c.Sim.Probe("read-failed-by-open-error")
				break
			}
			if err != nil {
				c.Violate("C02/snapshot-read-failed", "reader %d re-read %d: %v", r, i+1, err)
				break
			}
			c.Oracle()
			if !again.equal(first) {
				c.Violate("C02/snapshot-content-changed", "reader %d: held snapshot first showed {%s}, later {%s}", r, first, again)
				break
			}
		}
		delete(h.held, r)
		if c.Plan.C("dblclose", 0) == 1 {
			// lindb shares one kv snapshot between the result sets of a family and each of them closes it
			// (parallel load tasks): Close from two tasks at once must release the version once
			closed := false
			c.Sim.Spawn(fmt.Sprintf("closer%d", r), func() {
				snap.Close()
				closed = true
			})
			snap.Close()
			c.Sim.Await(func() bool { return closed })
			c.Sim.Probe("snapshot-closed-twice")
		} else {
			snap.Close()
		}
		c.Sim.Event("reader %d closed", r)
	}
}

func runC02(c *core.RunCtx) {
	sim := c.Sim
	h := &c02{c: c, held: map[int]*heldSnap{}, writing: map[int64]int{}, rollupLv: map[int64]bool{}, createdBy: map[int]int64{}}
	h.rollup = c.Plan.C("rollup", 0) == 1
	name := filepath.Join(c.Dir, "db", "day", "20000101")
	opt := kv.DefaultStoreOption()
	opt.TTL = ltoml.Duration(time.Duration(c.Plan.C("ttl_ms", 1000)) * time.Millisecond)
	if h.rollup {
		opt.Source = timeutil.Interval(10 * 1000)
		opt.Rollup = []timeutil.Interval{timeutil.Interval(5 * 60 * 1000)}
	}
	kv.VerifSetFS(h.pre)
	version.VerifSetFS(h.pre)
	table.VerifSetFS(h.pre)
	if pm := c.Plan.C("ioerr_pm", 0); pm > 0 {
		table.VerifSetFSFail(func(op, path string) error {
			if op != "map" || !sim.Tape.Chance(float64(pm)/1000) {
				return nil
			}
			h.openFails++
			sim.Fault("io-error@open-table")
			return errors.New("injected: input/output error")
		})
	}
	defer func() {
		kv.VerifSetFS(nil)
		version.VerifSetFS(nil)
		table.VerifSetFS(nil)
		table.VerifSetFSFail(nil)
	}()
	mgr := kv.VerifNewStoreManager()
	kv.InitStoreManager(mgr)
	var err error
	if h.store, err = mgr.CreateStore(name, opt); err != nil {
		c.Anomaly("CreateStore: %v", err)
		return
	}
	h.fam, err = h.store.CreateFamily("1", kv.FamilyOption{Merger: MergerName, CompactThreshold: c.Plan.C("threshold", 0), MaxFileSize: uint32(c.Plan.C("maxfile", 0)), RollupThreshold: 1})
	if err != nil {
		c.Anomaly("CreateFamily: %v", err)
		return
	}
	h.famDir = filepath.Join(name, "1")
	var flushOps = map[int][]core.Op{}
	var snapOps = map[int][]core.Op{}
	var maint []core.Op
	for _, op := range c.Plan.Ops {
		switch op.K {
		case "pre":
			h.flush(99, op, false)
		case "flush":
			flushOps[op.T] = append(flushOps[op.T], op)
		case "snap":
			snapOps[op.T] = append(snapOps[op.T], op)
		default:
			maint = append(maint, op)
		}
	}
	running := 0
	for f := 0; f < 2; f++ {
		ops := flushOps[f]
		if len(ops) == 0 {
			continue
		}
		running++
		f := f
		sim.Spawn(fmt.Sprintf("flusher%d", f), func() {
			for _, op := range ops {
				if c.Violated() {
					break
				}
				h.flush(f, op, true)
			}
			running--
		})
	}
	for r := 0; r < 3; r++ {
		ops := snapOps[r]
		if len(ops) == 0 {
			continue
		}
		running++
		r := r
		sim.Spawn(fmt.Sprintf("reader%d", r), func() {
			h.readerTask(r, ops)
			running--
		})
	}
	running++
	sim.Spawn("maint", func() {
		for _, op := range maint {
			if c.Violated() {
				break
			}
			sim.Event("maint %s", op.String())
			switch op.K {
			case "compact":
				h.fam.Compact()
			case "tick":
				kv.VerifStoreCompact(h.store)
			case "rollup":
				h.store.ForceRollup()
			case "jump":
				sim.Fault("clock-jump")
				simrt.Sleep(time.Duration(op.A) * time.Millisecond)
				kv.VerifStoreCompact(h.store)
			}
			sim.YieldNow()
		}
		running--
	})
	sim.Await(func() bool { return running == 0 || c.Violated() })
	if c.Violated() {
		return
	}
	// drain background jobs, then a late reader must see every commit
	sim.Await(func() bool { return !kv.VerifFamilyBusy(h.fam) })
	h.readerTask(9, []core.Op{{K: "snap", A: 1, B: 2}, {K: "snap", A: 1, B: 0}})
	if err := mgr.CloseStore(name); err != nil {
		c.Anomaly("CloseStore: %v", err)
	}
}

func sortedKeys(m map[int64]bool) []int64 {
	ks := make([]int64, 0, len(m))
	for k := range m {
		ks = append(ks, k)
	}
	sort.Slice(ks, func(i, j int) bool { return ks[i] < ks[j] })
	return ks
}
