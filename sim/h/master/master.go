// Package master simulates the master's shard placement and shard state (C18):
// real coordinator/master StateManager + state machines + coordinator/discovery
// over a simulated state repository (in-memory, ordered watch streams with delay,
// re-synchronisation = duplicate delivery of the current state).
package master

import (
	"context"
	"encoding/json"
	"fmt"
	"math/rand"
	"sort"
	"strings"
	"time"

	"github.com/lindb/common/pkg/encoding"
	"github.com/lindb/lindb/constants"
	"github.com/lindb/lindb/coordinator/discovery"
	"github.com/lindb/lindb/coordinator/master"
	"github.com/lindb/lindb/models"
	"github.com/lindb/lindb/pkg/option"
	"github.com/lindb/lindb/pkg/state"

	"verifsim/core"
	"verifsim/simrt"
)

type H struct{}

func init() { core.Register(H{}) }

func (H) Name() string { return "master" }

func (H) Gen(prop string, rng *rand.Rand, tier string) *core.Plan {
	p := &core.Plan{Harness: "master", Prop: "C18", Cfg: map[string]int{}}
	p.Cfg["preempt_pm"] = []int{0, 5, 30}[rng.Intn(3)]
	p.Cfg["switch_pm"] = []int{50, 300}[rng.Intn(2)]
	p.Cfg["delay_ms"] = []int{0, 1, 20, 300}[rng.Intn(4)] // max watch delivery delay
	nodes := 1 + rng.Intn(7)
	p.Cfg["nodes"] = nodes
	// some nodes are up before the master starts
	for i := 1; i <= nodes; i++ {
		if rng.Intn(3) > 0 {
			p.Ops = append(p.Ops, core.Op{K: "up", T: i})
		}
	}
	p.Ops = append(p.Ops, core.Op{K: "start"})
	n := 4 + rng.Intn(36)
	// master failover (a third of the plans): the master resigns, dies while idle or dies at a tape-chosen point of
	// its event processing; node and database events go on without a master; a new master (fresh state manager and
	// state machines on the same repository) takes over B operations later
	failover := rng.Intn(3) == 0
	p.Cfg["mcrash_pm"] = []int{10, 40, 150}[rng.Intn(3)]
	p.Cfg["racy_start"] = rng.Intn(2) // node and database events arrive while a master is still starting
	for i := 0; i < n; i++ {
		node := 1 + rng.Intn(nodes)
		db := rng.Intn(3)
		if failover && rng.Intn(8) == 0 {
			p.Ops = append(p.Ops, core.Op{K: "failover", S: []string{"resign", "crash", "armed"}[rng.Intn(3)], B: int64(rng.Intn(4))})
			continue
		}
		switch r := rng.Intn(100); {
		case r < 22:
			p.Ops = append(p.Ops, core.Op{K: "up", T: node})
		case r < 44:
			p.Ops = append(p.Ops, core.Op{K: "down", T: node})
		case r < 50:
			p.Ops = append(p.Ops, core.Op{K: "flap", T: node})
		case r < 68:
			p.Ops = append(p.Ops, core.Op{K: "createdb", T: db, A: int64(1 + rng.Intn(12)), B: int64(1 + rng.Intn(3))})
		case r < 80:
			p.Ops = append(p.Ops, core.Op{K: "grow", T: db, A: int64(1 + rng.Intn(6))})
		case r < 86:
			p.Ops = append(p.Ops, core.Op{K: "dropdb", T: db})
		case r < 92:
			p.Ops = append(p.Ops, core.Op{K: "resync", A: int64(rng.Intn(3))})
		default:
			p.Ops = append(p.Ops, core.Op{K: "burst", A: int64(2 + rng.Intn(3))})
		}
	}
	p.Cfg["maporder"] = rng.Intn(2) // tape-chosen iteration order of Go maps in the code under test
	return p
}

func (H) End(c *core.RunCtx, end string) (string, string) {
	return "", "scheduler ended before the harness finished"
}

// ---- simulated repository -----------------------------------------------------

type watcher struct {
	prefix  string
	ch      chan *state.Event
	pending []*state.Event
	ctx     context.Context
	inc     int
	dead    bool // the process that watched is gone
}

type repo struct {
	state.Repository // unimplemented methods panic loudly
	sim              *simrt.Sim
	kv               map[string][]byte
	watchers         []*watcher
	maxDelay         int
	crashPoint       func(what string) // process death of the caller before the operation takes effect
	starting         map[int]int       // per incarnation: watchers whose first Get has not happened yet
}

func (r *repo) Get(_ context.Context, key string) ([]byte, error) {
	v, ok := r.kv[key]
	if !ok {
		return nil, state.ErrNotExist
	}
	return append([]byte(nil), v...), nil
}

func (r *repo) List(_ context.Context, prefix string) ([]state.KeyValue, error) {
	var keys []string
	for k := range r.kv {
		if strings.HasPrefix(k, prefix) {
			keys = append(keys, k)
		}
	}
	sort.Strings(keys)
	var out []state.KeyValue
	for _, k := range keys {
		out = append(out, state.KeyValue{Key: k, Value: append([]byte(nil), r.kv[k]...)})
	}
	return out, nil
}

func (r *repo) notify(typ state.EventType, key string, val []byte) {
	for _, w := range r.watchers {
		if strings.HasPrefix(key, w.prefix) && w.ctx.Err() == nil && !w.dead {
			w.pending = append(w.pending, &state.Event{Type: typ, KeyValues: []state.EventKeyValue{{Key: key, Value: append([]byte(nil), val...)}}})
		}
	}
}

func (r *repo) Put(_ context.Context, key string, val []byte) error {
	if r.crashPoint != nil {
		r.crashPoint("put " + key)
	}
	r.kv[key] = append([]byte(nil), val...)
	r.notify(state.EventTypeModify, key, val)
	return nil
}

func (r *repo) Delete(_ context.Context, key string) error {
	if r.crashPoint != nil {
		r.crashPoint("delete " + key)
	}
	if _, ok := r.kv[key]; !ok {
		return nil
	}
	delete(r.kv, key)
	r.notify(state.EventTypeDelete, key, nil)
	return nil
}

// WatchPrefix: an ordered stream per watcher (as etcd guarantees), each event
// delivered after a tape-chosen delay by the watcher's delivery task. Like lindb's etcd
// watcher (pkg/state/watch.go) the stream starts - some time after the call, in the watcher's
// own task - with one EventTypeAll event holding what is stored under the prefix at that
// moment, followed by every change from then on.
func (r *repo) WatchPrefix(ctx context.Context, prefix string, _ bool) state.WatchEventChan {
	w := &watcher{prefix: prefix, ch: make(chan *state.Event, 64), ctx: ctx, inc: r.sim.CurInc()}
	inc := r.sim.CurInc()
	r.starting[inc]++
	r.sim.Spawn("watch:"+prefix, func() {
		// Get + Watch(rev+1): snapshot and registration are one step
		all := &state.Event{Type: state.EventTypeAll}
		kvs, _ := r.List(ctx, prefix)
		for _, kv := range kvs {
			all.KeyValues = append(all.KeyValues, state.EventKeyValue{Key: kv.Key, Value: kv.Value})
		}
		w.pending = append(w.pending, all)
		r.watchers = append(r.watchers, w)
		r.starting[inc]--
		for {
			r.sim.Await(func() bool { return len(w.pending) > 0 || ctx.Err() != nil })
			if ctx.Err() != nil {
				close(w.ch)
				return
			}
			ev := w.pending[0]
			w.pending = w.pending[1:]
			if r.maxDelay > 0 {
				if d := r.sim.Tape.Choose(r.maxDelay + 1); d > 0 {
					r.sim.Fault("delayed-watch-event")
					simrt.Sleep(time.Duration(d) * time.Millisecond)
				}
			}
			simrt.Send(w.ch, ev)
		}
	})
	return w.ch
}

func (r *repo) Close() error { return nil }

func (r *repo) idle() bool {
	for _, n := range r.starting {
		if n > 0 {
			return false
		}
	}
	for _, w := range r.watchers {
		if w.dead || w.ctx.Err() != nil {
			continue
		}
		if len(w.pending) > 0 || len(w.ch) > 0 {
			return false
		}
	}
	return true
}

// ---- harness ------------------------------------------------------------------------

type dbModel struct {
	allowed  map[int]bool // nodes registered at some moment since the configuration that asks for unassigned shards was stored
	shards   int
	rf       int
	replicas map[int][]int // shard -> replicas as first seen
	batches  [][]int       // shard ids created by one assignment call
}

type run struct {
	c       *core.RunCtx
	repo    *repo
	mgr     master.StateManager
	up      map[int]bool
	aliveU  map[int]bool // union of nodes alive since the last quiescent check
	dbs     map[int]*dbModel
	started bool
	burst   bool

	fct          *master.StateMachineFactory
	inc          int // incarnation of the running master
	mcancel      context.CancelFunc
	everUp       bool
	armed        bool // the master dies at a tape-chosen point of its processing
	restartIn    int  // operations until a new master takes over
	restartDelay int
	skipRR       bool // assignments since the last check may come from more than one call / node set
	tainted      map[int]bool
	booted       func() bool
	bootErr      func() error
}

func dbName(i int) string { return fmt.Sprintf("db%d", i) }

func (r *run) nodeUp(i int) {
	n := models.StatefulNode{ID: models.NodeID(i)}
	n.HostIP = fmt.Sprintf("10.0.0.%d", i)
	n.GRPCPort = 2891
	data, _ := json.Marshal(&n)
	_ = r.repo.Put(context.Background(), constants.GetStorageLiveNodePath(fmt.Sprint(i)), data)
	r.up[i] = true
	r.aliveU[i] = true
	for _, m := range r.dbs {
		if m.allowed != nil {
			m.allowed[i] = true
		}
	}
}

func (r *run) nodeDown(i int) {
	_ = r.repo.Delete(context.Background(), constants.GetStorageLiveNodePath(fmt.Sprint(i)))
	delete(r.up, i)
}

func (r *run) putDB(i int, m *dbModel) {
	cfg := models.Database{Name: dbName(i), NumOfShard: m.shards, ReplicaFactor: m.rf, Option: &option.DatabaseOption{}}
	_ = r.repo.Put(context.Background(), constants.GetDatabaseConfigPath(dbName(i)), encoding.JSONMarshal(&cfg))
}

func (r *run) apply(op core.Op) {
	switch op.K {
	case "up":
		r.nodeUp(op.T)
	case "down":
		r.nodeDown(op.T)
	case "flap":
		if r.up[op.T] {
			r.nodeDown(op.T)
			r.nodeUp(op.T)
		} else {
			r.nodeUp(op.T)
			r.nodeDown(op.T)
		}
	case "createdb":
		if r.dbs[op.T] != nil || r.tainted[op.T] {
			return
		}
		m := &dbModel{shards: int(op.A), rf: int(op.B), replicas: map[int][]int{}}
		m.allowed = r.copyUp(nil)
		r.dbs[op.T] = m
		r.putDB(op.T, m)
	case "grow":
		m := r.dbs[op.T]
		if m == nil {
			return
		}
		m.shards += int(op.A)
		if len(m.replicas) < m.shards-int(op.A) {
			m.allowed = r.copyUp(m.allowed) // earlier shards are still waiting for their assignment
		} else {
			m.allowed = r.copyUp(nil)
		}
		r.putDB(op.T, m)
	case "dropdb":
		if r.dbs[op.T] == nil {
			return
		}
		if !r.started || (r.booted != nil && !r.booted()) || r.repo.starting[r.inc] > 0 {
			// (no master, or one that has not looked at the database configurations yet)
			// nobody would ever remove the assignment of a database dropped while there is no master (the new master
			// learns about present configurations only); what a later database of that name means then is not
			// something C18 states - the history generator leaves it out
			return
		}
		if r.armed {
			r.tainted[op.T] = true // the drop may be interrupted half way: the name is not used again
		}
		delete(r.dbs, op.T)
		_ = r.repo.Delete(context.Background(), constants.GetDatabaseConfigPath(dbName(op.T)))
	case "resync":
		// a re-established watch lists the prefix again: the current state is delivered once more
		prefix := []string{constants.StorageLiveNodesPath, constants.DatabaseConfigPath, constants.ShardAssignmentPath}[op.A%3]
		r.c.Sim.Fault("watch-resync-duplicates")
		kvs, _ := r.repo.List(context.Background(), prefix)
		for _, kv := range kvs {
			r.repo.notify(state.EventTypeModify, kv.Key, kv.Value)
		}
	}
}

func (r *run) copyUp(into map[int]bool) map[int]bool {
	if into == nil {
		into = map[int]bool{}
	}
	for n := range r.up {
		into[n] = true
	}
	return into
}

// startMaster: what OnFailOver does - a fresh state manager and fresh state machines on the same repository, in an
// incarnation of their own (a master is a process that can die).
func (r *run) startMaster(racy bool) bool {
	sim := r.c.Sim
	r.inc = sim.NewIncarnation()
	ctx, cancel := context.WithCancel(context.Background())
	r.mcancel = cancel
	inc := r.inc
	booted := false
	var err error
	r.started, r.everUp = true, true
	sim.SpawnIn(inc, "master-boot", func() {
		r.mgr = master.NewStateManager(ctx, r.repo, nil)
		r.fct = master.NewStateMachineFactory(ctx, discovery.NewFactory(r.repo), r.mgr)
		r.mgr.SetStateMachineFactory(r.fct)
		err = r.fct.Start()
		booted = true
	})
	r.booted = func() bool { return booted || r.inc != inc || !r.started }
	r.bootErr = func() error { return err }
	if racy {
		r.skipRR = true
		// the next operations meet a master that is still starting: between the list of a state machine and the
		// first Get of its watcher, between two state machines ...
		for k := sim.Tape.Choose(40); k > 0 && !r.booted(); k-- {
			sim.YieldNow()
		}
		if !r.booted() {
			sim.Fault("event-during-master-start")
		}
		return true
	}
	sim.Await(r.booted)
	if err != nil {
		r.c.Anomaly("state machines: %v", err)
		return false
	}
	return true
}

// masterGone: the running master is no more (resigned or dead); its watches die with it.
func (r *run) masterGone(kind string) {
	r.c.Sim.Fault("master-" + kind)
	r.started, r.armed = false, false
	r.restartIn = r.restartDelay
	r.skipRR = true
	for _, w := range r.repo.watchers {
		if w.inc == r.inc {
			w.dead = true
		}
	}
	delete(r.repo.starting, r.inc)
}

// settle waits until every watch event has been delivered and processed.
func (r *run) settle() {
	if r.booted != nil {
		r.c.Sim.Await(r.booted)
		if err := r.bootErr(); err != nil {
			r.c.Anomaly("state machines: %v", err)
			return
		}
	}
	for i := 0; i < 50; i++ {
		simrt.Sleep(500 * time.Millisecond) // simulated time only advances when every task is blocked
		if r.repo.idle() {
			simrt.Sleep(500 * time.Millisecond)
			if r.repo.idle() {
				return
			}
		}
	}
	r.c.Anomaly("watch events never drained")
}

func ids(rs []models.NodeID) []int {
	out := make([]int, len(rs))
	for i, x := range rs {
		out[i] = int(x)
	}
	return out
}

func (r *run) check(after string) {
	c := r.c
	c.Oracle()
	st := r.mgr.GetStorageState()
	// the master's view of live nodes equals the registered nodes once events are drained
	for n := range r.up {
		if _, ok := st.LiveNodes[models.NodeID(n)]; !ok {
			c.Violate("C18/live-node-missing", "%s: node %d is registered but the storage state does not list it as live", after, n)
			return
		}
	}
	for n := range st.LiveNodes {
		if !r.up[int(n)] {
			c.Violate("C18/dead-node-live", "%s: node %d is gone but the storage state still lists it as live", after, n)
			return
		}
	}
	names := make([]int, 0, len(r.dbs))
	for i := range r.dbs {
		names = append(names, i)
	}
	sort.Ints(names)
	for _, i := range names {
		m := r.dbs[i]
		raw, err := r.repo.Get(context.Background(), constants.GetDatabaseAssignPath(dbName(i)))
		if err != nil {
			// creation legitimately fails when fewer nodes than the replica factor are alive (or none)
			if len(r.aliveU) >= m.rf && len(r.up) >= m.rf && len(m.replicas) == 0 {
				c.Sim.Probe("assignment-absent-although-enough-nodes")
			}
			continue
		}
		sa := &models.ShardAssignment{}
		if err := encoding.JSONUnmarshal(raw, sa); err != nil {
			c.Violate("C18/assignment-unreadable", "%s: %v", after, err)
			return
		}
		var newShards []int
		for _, sid := range sortedShards(sa) {
			rep := sa.Shards[sid]
			got := ids(rep.Replicas)
			seen := map[int]bool{}
			for _, n := range got {
				if seen[n] {
					c.Violate("C18/duplicate-replica", "%s: %s shard %d has replicas %v", after, dbName(i), sid, got)
					return
				}
				seen[n] = true
			}
			if prev, ok := m.replicas[int(sid)]; ok {
				if fmt.Sprint(prev) != fmt.Sprint(got) {
					c.Violate("C18/existing-shard-moved", "%s: %s shard %d had replicas %v, now %v", after, dbName(i), sid, prev, got)
					return
				}
				continue
			}
			if len(got) != m.rf {
				c.Violate("C18/wrong-replica-count", "%s: %s shard %d has %d replicas %v, replica factor is %d", after, dbName(i), sid, len(got), got, m.rf)
				return
			}
			for _, n := range got {
				// alive at creation: registered at some moment between the storing of the configuration that asked for
				// the shard and now (the master reads the registrations when it makes the assignment)
				if !r.aliveU[n] || (m.allowed != nil && !m.allowed[n]) {
					c.Violate("C18/replica-on-dead-node", "%s: %s shard %d placed on node %d which was not alive when the assignment was made (registered since the configuration was stored: %v)", after, dbName(i), sid, n, keys(m.allowed))
					return
				}
			}
			m.replicas[int(sid)] = got
			newShards = append(newShards, int(sid))
			c.Sim.Event("assigned %s shard %d -> %v", dbName(i), sid, got)
		}
		if len(newShards) > 0 {
			sort.Ints(newShards)
			// round robin of first replicas within one assignment call.  Several calls may have
			// happened since the last check (burst): judge only contiguous runs per call when unambiguous.
			if !r.burst && !r.skipRR {
				cnt := map[int]int{}
				for n := range r.up {
					cnt[n] = 0
				}
				for _, s := range newShards {
					cnt[m.replicas[s][0]]++
				}
				min, max := 1<<30, 0
				for _, v := range cnt {
					if v < min {
						min = v
					}
					if v > max {
						max = v
					}
				}
				if max-min > 1 {
					c.Violate("C18/first-replicas-not-round-robin", "%s: %s shards %v got first replicas with per-node counts %v", after, dbName(i), newShards, cnt)
					return
				}
			}
		}
		if len(sa.Shards) != len(m.replicas) {
			c.Violate("C18/shard-disappeared", "%s: %s has %d shards, had %d", after, dbName(i), len(sa.Shards), len(m.replicas))
			return
		}
		// shard state
		ss, ok := st.ShardStates[dbName(i)]
		if !ok {
			c.Violate("C18/shard-state-missing", "%s: no shard states for %s although it has an assignment", after, dbName(i))
			return
		}
		for _, sid := range sortedShards(sa) {
			rep := sa.Shards[sid]
			s, ok := ss[sid]
			if !ok {
				c.Violate("C18/shard-state-missing", "%s: %s shard %d has no state", after, dbName(i), sid)
				return
			}
			aliveReplica := false
			for _, n := range rep.Replicas {
				if _, ok := st.LiveNodes[n]; ok {
					aliveReplica = true
				}
			}
			online := s.State == models.OnlineShard
			if online != aliveReplica {
				c.Violate("C18/online-state-wrong", "%s: %s shard %d state=%v replicas=%v live=%v", after, dbName(i), sid, s.State, ids(rep.Replicas), liveIDs(st))
				return
			}
			if online {
				if _, ok := st.LiveNodes[s.Leader]; !ok || !rep.Contain(s.Leader) {
					c.Violate("C18/leader-not-alive-replica", "%s: %s shard %d leader=%d replicas=%v live=%v", after, dbName(i), sid, s.Leader, ids(rep.Replicas), liveIDs(st))
					return
				}
			}
		}
	}
	r.aliveU = map[int]bool{}
	for n := range r.up {
		r.aliveU[n] = true
	}
	r.skipRR = false
}

func keys(m map[int]bool) []int {
	var k []int
	for x := range m {
		k = append(k, x)
	}
	sort.Ints(k)
	return k
}

func liveIDs(st *models.StorageState) []int {
	var k []int
	for n := range st.LiveNodes {
		k = append(k, int(n))
	}
	sort.Ints(k)
	return k
}

func (H) Run(c *core.RunCtx) {
	sim := c.Sim
	r := &run{c: c, up: map[int]bool{}, aliveU: map[int]bool{}, dbs: map[int]*dbModel{}, tainted: map[int]bool{}}
	r.repo = &repo{sim: sim, kv: map[string][]byte{}, starting: map[int]int{}, maxDelay: c.Plan.C("delay_ms", 0)}
	crashP := float64(c.Plan.C("mcrash_pm", 0)) / 1000
	die := func(what string) {
		if !r.armed || !r.started || sim.CurInc() != r.inc || !sim.Tape.Chance(crashP) {
			return
		}
		sim.Event("master dies at %s", what)
		r.masterGone("crash-armed")
		sim.Kill(r.inc)
	}
	r.repo.crashPoint = die
	sim.OnYield = func(label string) {
		if r.armed && strings.HasPrefix(label, "master.") {
			die(label)
		}
	}
	defer func() {
		sim.OnYield = nil
		if r.mcancel != nil {
			r.mcancel()
		}
	}()
	ops := c.Plan.Ops
	for i := 0; i <= len(ops) && !c.Violated(); i++ {
		if r.everUp && !r.started && (r.restartIn <= 0 || i == len(ops)) {
			// a new master takes over
			racy := c.Plan.C("racy_start", 0) == 1 && i < len(ops)
			if !r.startMaster(racy) {
				return
			}
			if !racy {
				r.settle()
				if c.Res.Anomaly != "" {
					return
				}
				r.check("after master take-over")
			}
		}
		if !r.started {
			r.restartIn--
		}
		if i == len(ops) {
			break
		}
		op := ops[i]
		sim.Event("op %s", op.String())
		switch op.K {
		case "start":
			if r.started {
				continue
			}
			racy := c.Plan.C("racy_start", 0) == 1
			if !r.startMaster(racy) {
				return
			}
			if racy {
				continue // the next operation meets the starting master
			}
		case "failover":
			if !r.started {
				continue
			}
			if r.booted != nil {
				sim.Await(r.booted) // (a master that is still starting is not failed over)
			}
			if !r.started {
				continue
			}
			r.restartDelay = int(op.B)
			switch op.S {
			case "resign":
				// OnResignation: the state machines are stopped, the state manager closed
				r.fct.Stop()
				r.mgr.Close()
				r.mcancel()
				r.masterGone("resign")
			case "crash":
				sim.Kill(r.inc)
				r.masterGone("crash-idle")
			default:
				r.armed = true
			}
			continue
		case "burst":
			// the next A operations are issued without waiting for the master in between
			r.burst = true
			n := int(op.A)
			for j := 0; j < n && i+1 < len(ops); j++ {
				i++
				if ops[i].K == "start" || ops[i].K == "burst" || ops[i].K == "failover" {
					continue
				}
				sim.Event("op(burst) %s", ops[i].String())
				r.apply(ops[i])
			}
		default:
			r.apply(op)
		}
		if !r.started {
			continue
		}
		r.settle()
		if c.Res.Anomaly != "" {
			return
		}
		if !r.started {
			continue // the master died while it processed the events of this operation
		}
		r.check("after " + op.String())
		r.burst = false
	}
}

func sortedShards(sa *models.ShardAssignment) []models.ShardID {
	out := make([]models.ShardID, 0, len(sa.Shards))
	for sid := range sa.Shards {
		out = append(out, sid)
	}
	sort.Slice(out, func(i, j int) bool { return out[i] < out[j] })
	return out
}
