// Package walq simulates pkg/queue: C05 (appended messages keep sequence and
// bytes) and C06 (consumer group positions, GC).
package walq

import (
	"encoding/binary"
	"fmt"
	"math/rand"
	"path/filepath"
	"sort"
	"strings"

	"github.com/lindb/lindb/pkg/queue"

	"verifsim/core"
	"verifsim/simrt"
)

type H struct{}

func init() { core.Register(H{}) }

func (H) Name() string { return "walq" }

// PageSize must equal the compile-time knob pkg/queue.dataPageSize of the overlay.
const PageSize = 512

func (H) Gen(prop string, rng *rand.Rand, tier string) *core.Plan {
	if prop == "C06" {
		return genC06(rng, tier)
	}
	return genC05(rng, tier)
}

func (H) Run(c *core.RunCtx) {
	if c.Plan.Prop == "C06" {
		runC06(c)
		return
	}
	runC05(c)
}

func (H) End(c *core.RunCtx, end string) (string, string) {
	return "", "scheduler ended before the harness finished"
}

func pick(rng *rand.Rand, xs ...int) int { return xs[rng.Intn(len(xs))] }

func genC05(rng *rand.Rand, tier string) *core.Plan {
	p := &core.Plan{Harness: "walq", Prop: "C05", Cfg: map[string]int{}}
	apps := 1 + rng.Intn(3)
	p.Cfg["apps"] = apps
	p.Cfg["preempt_pm"] = pick(rng, 0, 20, 60, 150, 300)
	if apps == 1 {
		p.Cfg["preempt_pm"] = pick(rng, 0, 20)
	}
	p.Cfg["switch_pm"] = pick(rng, 0, 100, 400)
	p.Cfg["crash_pm"] = pick(rng, 3, 10, 40)
	p.Cfg["reader"] = rng.Intn(2)
	if rng.Intn(4) == 0 {
		p.Cfg["open_fail_pm"] = pick(rng, 100, 300, 1000)
		p.Cfg["open_fail_max"] = 1 + rng.Intn(2)
	}
	if rng.Intn(4) == 0 {
		p.Cfg["crash_create"] = 1 + rng.Intn(60) // the process dies at the n-th yield point of the queue's creation
	}
	// the acknowledgements and collections of a phase run in a task of their own, concurrently with the appenders
	// (the replica loop acknowledges and the log manager collects while the write path appends), and die with them
	p.Cfg["ack_par"] = rng.Intn(2)
	phases := 1 + rng.Intn(4)
	id := int64(0)
	big := rng.Intn(3) == 0 // page roll-over heavy
	for ph := 0; ph < phases; ph++ {
		for a := 0; a < apps; a++ {
			n := rng.Intn(5)
			for i := 0; i < n; i++ {
				id++
				size := 8 + rng.Intn(40)
				if big || rng.Intn(6) == 0 {
					size = pick(rng, 100, 200, 250, 256, 300, 500, PageSize-1, PageSize)
				}
				p.Ops = append(p.Ops, core.Op{K: "put", T: a, A: int64(size), B: id})
			}
		}
		if rng.Intn(3) == 0 {
			for k := 1 + rng.Intn(2); k > 0; k-- {
				p.Ops = append(p.Ops, core.Op{K: "ack", A: int64(rng.Intn(101)), B: int64(rng.Intn(12))})
				if rng.Intn(2) == 0 {
					p.Ops = append(p.Ops, core.Op{K: "gc"})
				}
			}
		}
		p.Ops = append(p.Ops, core.Op{K: "end", S: []string{"sync", "reopen", "reopen", "crash", "crash"}[rng.Intn(5)]})
	}
	// always finish with one more append after the last reopen: "a later append never alters an earlier message"
	id++
	p.Ops = append(p.Ops, core.Op{K: "put", T: 0, A: int64(8 + rng.Intn(30)), B: id}, core.Op{K: "end", S: "sync"})
	return p
}

func message(id int64, size int) []byte {
	if size < 8 {
		size = 8
	}
	b := make([]byte, size)
	binary.LittleEndian.PutUint32(b[0:], uint32(id))
	binary.LittleEndian.PutUint32(b[4:], uint32(size))
	for i := 8; i < size; i++ {
		b[i] = byte((int(id)*31 + i*7) % 251)
	}
	return b
}

func parse(b []byte) (id int64, ok bool) {
	if len(b) < 8 {
		return 0, false
	}
	id = int64(binary.LittleEndian.Uint32(b[0:]))
	size := int(binary.LittleEndian.Uint32(b[4:]))
	if size != len(b) {
		return id, false
	}
	exp := message(id, size)
	for i := range b {
		if b[i] != exp[i] {
			return id, false
		}
	}
	return id, true
}

type ledger struct {
	c        *core.RunCtx
	invoked  map[int64]bool
	acked    map[int64]bool
	seqOf    map[int64]int64 // message id -> sequence first observed
	idAt     map[int64]int64 // sequence -> message id
	crashed  bool
	nInvoked int
	nAcked   int
}

// safeGet: a read that panics (an index entry that points outside its data page) is a read that failed.
func safeGet(q queue.Queue, s int64) (data []byte, err error) {
	defer func() {
		if e := recover(); e != nil {
			err = fmt.Errorf("panic: %v", e)
		}
	}()
	d, err := q.Get(s)
	if err != nil {
		return nil, err
	}
	// Get hands out the bytes inside the mapped page: a copy, taken before the page can be collected
	return append([]byte(nil), d...), nil
}

// verify reads every sequence above the queue ack and checks the ledger.
func (l *ledger) verify(q queue.Queue, when string, quiescent bool) {
	c := l.c
	appended, ack := q.AppendedSeq(), q.AcknowledgedSeq()
	c.Oracle()
	seen := map[int64]int64{}
	for s := ack + 1; s <= appended; s++ {
		data, err := safeGet(q, s)
		if err != nil && !quiescent && s <= q.AcknowledgedSeq() {
			// acknowledged (and collected) while this read was on its way
			c.Sim.Probe("read-overtaken-by-ack")
			continue
		}
		if err != nil {
			c.Violate("C05/get-failed", "%s: Get(%d) failed: %v (appended=%d ack=%d)", when, s, err, appended, ack)
			return
		}
		id, ok := parse(data)
		if !ok {
			c.Violate("C05/bytes-corrupt", "%s: sequence %d holds %d bytes that are no appended message (header id=%d); previously it held message %d", when, s, len(data), id, l.idAt[s])
			return
		}
		if !l.invoked[id] {
			c.Violate("C05/phantom-message", "%s: sequence %d holds message %d that was never appended", when, s, id)
			return
		}
		if prev, ok := l.idAt[s]; ok && prev != id {
			c.Violate("C05/sequence-content-changed", "%s: sequence %d held message %d, now message %d", when, s, prev, id)
			return
		}
		if ps, ok := l.seqOf[id]; ok && ps != s {
			c.Violate("C05/message-moved", "%s: message %d was at sequence %d, now also at %d", when, id, ps, s)
			return
		}
		if o, dup := seen[id]; dup {
			c.Violate("C05/duplicate-message", "%s: message %d at sequences %d and %d", when, id, o, s)
			return
		}
		seen[id] = s
		l.idAt[s] = id
		l.seqOf[id] = s
	}
	if !quiescent {
		return
	}
	// messages the ledger never saw at a sequence can only sit at positions at or below the acknowledged one that it
	// never read (acknowledged by the concurrent acker before the first read after their append)
	hidden := 0
	for s := int64(0); s <= ack; s++ {
		if _, ok := l.idAt[s]; !ok {
			hidden++
		}
	}
	ids := make([]int64, 0, len(l.acked))
	for id := range l.acked {
		ids = append(ids, id)
	}
	sort.Slice(ids, func(i, j int) bool { return ids[i] < ids[j] })
	for _, id := range ids {
		s, ok := l.seqOf[id]
		if !ok && hidden > 0 {
			hidden--
			continue
		}
		if !ok {
			c.Violate("C05/acked-append-lost", "%s: append of message %d returned success but it is readable nowhere (appended=%d ack=%d)", when, id, appended, ack)
			return
		}
		if s > ack {
			if _, ok := seen[id]; !ok {
				c.Violate("C05/acked-append-lost", "%s: message %d (sequence %d > ack %d) no longer readable", when, id, s, ack)
				return
			}
		}
	}
	n := int(appended + 1)
	if n < l.nAcked || n > l.nInvoked || (!l.crashed && n != l.nAcked) {
		c.Violate("C05/not-dense", "%s: appended sequence %d but %d appends succeeded (%d invoked, crashed=%v)", when, appended, l.nAcked, l.nInvoked, l.crashed)
	}
}

func runC05(c *core.RunCtx) {
	sim := c.Sim
	dir := c.Dir + "/q"
	if at := c.Plan.C("crash_create", 0); at > 0 {
		// process death while the queue is being created: the reopened queue must be an empty queue
		inc := sim.NewIncarnation()
		n, dead, done := 0, false, false
		sim.OnYield = func(label string) {
			if dead || sim.CurInc() != inc || !(strings.HasPrefix(label, "page.") || strings.HasPrefix(label, "queue.")) {
				return
			}
			n++
			if n == at {
				dead = true
				sim.Fault("crash-in-create")
				sim.Event("crash in creation at %s", label)
				sim.Kill(inc)
			}
		}
		sim.SpawnIn(inc, "creator", func() {
			if q0, err := queue.NewQueue(dir, PageSize); err == nil {
				q0.Close()
			}
			done = true
		})
		sim.Await(func() bool { return dead || done })
		sim.OnYield = nil
	}
	q, err := queue.NewQueue(dir, PageSize)
	if err != nil {
		c.Violate("C05/reopen-failed", "NewQueue after an interrupted creation: %v", err)
		return
	}
	l := &ledger{c: c, invoked: map[int64]bool{}, acked: map[int64]bool{}, seqOf: map[int64]int64{}, idAt: map[int64]int64{}}
	l.verify(q, "after creation", true)
	if c.Violated() {
		return
	}
	apps := c.Plan.C("apps", 1)
	crashP := float64(c.Plan.C("crash_pm", 10)) / 1000

	// split ops into phases
	var phase []core.Op
	for _, op := range c.Plan.Ops {
		if op.K != "end" {
			phase = append(phase, op)
			continue
		}
		ops := phase
		phase = nil
		inc := sim.NewIncarnation()
		crashArmed := op.S == "crash"
		crashedNow := false
		if crashArmed {
			sim.OnYield = func(label string) {
				if crashedNow || sim.CurInc() != inc {
					return
				}
				if !(strings.HasPrefix(label, "page.") || strings.HasPrefix(label, "queue.")) {
					return
				}
				if sim.Tape.Chance(crashP) {
					crashedNow = true
					l.crashed = true
					sim.Fault("crash-in-append")
					sim.Event("crash at %s", label)
					sim.Kill(inc)
				}
			}
		}
		// page acquisition failures: the open / create of a data or index page fails with an I/O error
		openFailed := map[int]bool{}
		if pm := c.Plan.C("open_fail_pm", 0); pm > 0 {
			left := c.Plan.C("open_fail_max", 1)
			simrt.FailOpen = func(name string) error {
				if left == 0 || crashedNow || sim.CurInc() != inc || !strings.HasPrefix(sim.CurTaskName(), "app") {
					return nil
				}
				if !sim.Tape.Chance(float64(pm) / 1000) {
					return nil
				}
				left--
				openFailed[sim.CurTask()] = true
				sim.Fault("page-open-fails")
				sim.Event("injected open failure %s", strings.TrimPrefix(name, c.Dir))
				return fmt.Errorf("open %s: injected: too many open files", filepath.Base(name))
			}
		}
		running := 0
		for a := 0; a < apps; a++ {
			var mine []core.Op
			for _, o := range ops {
				if o.K == "put" && o.T%apps == a {
					mine = append(mine, o)
				}
			}
			if len(mine) == 0 {
				continue
			}
			running++
			a := a
			sim.SpawnIn(inc, fmt.Sprintf("app%d", a), func() {
				for _, o := range mine {
					msg := message(o.B, int(o.A))
					l.invoked[o.B] = true
					l.nInvoked++
					sim.Event("put %d size %d", o.B, len(msg))
					if err := q.Put(msg); err == nil {
						l.acked[o.B] = true
						l.nAcked++
						sim.Event("put %d ok", o.B)
					} else if openFailed[sim.CurTask()] {
						// the page the append needed could not be opened: the append reports it, the message counts
						// as not appended (like one in flight at a crash), everything else must be as before
						delete(openFailed, sim.CurTask())
						sim.Probe("put-failed-by-open-error")
						sim.Event("put %d err %v", o.B, err)
					} else {
						sim.Event("put %d err %v", o.B, err)
						c.Anomaly("Put failed: %v", err)
					}
				}
				running--
			})
		}
		ackPar := c.Plan.C("ack_par", 0) == 1
		doAcks := func() {
			for _, o := range ops {
				if crashedNow {
					return
				}
				switch o.K {
				case "ack":
					if ackPar {
						for i := int64(0); i < o.B; i++ {
							sim.YieldNow()
						}
					}
					app := q.AppendedSeq()
					if app >= 0 {
						target := (app + 1) * o.A / 100
						sim.Event("ack %d", target-1)
						q.SetAcknowledgedSeq(target - 1)
					}
				case "gc":
					sim.Event("gc")
					q.GC()
				}
			}
		}
		ackerDone := true
		if ackPar {
			for _, o := range ops {
				if o.K == "ack" {
					ackerDone = false
				}
			}
			if !ackerDone {
				sim.Fault("ack-gc-concurrent-with-appends")
				sim.SpawnIn(inc, "acker", func() {
					doAcks()
					ackerDone = true
				})
			}
		}
		readerDone := true
		if c.Plan.C("reader", 0) == 1 && running > 0 {
			readerDone = false
			sim.SpawnIn(inc, "reader", func() {
				for i := 0; i < 3 && running > 0; i++ {
					l.verify(q, "concurrent read", false)
					sim.YieldNow()
				}
				readerDone = true
			})
		}
		sim.Await(func() bool { return crashedNow || (running == 0 && readerDone && ackerDone) })
		sim.OnYield = nil
		simrt.FailOpen = nil
		if c.Violated() {
			return
		}
		if !crashedNow {
			l.verify(q, "after appends", true)
			if c.Violated() {
				return
			}
		}
		if !ackPar && !crashedNow {
			doAcks()
		}
		switch {
		case crashedNow:
			// the process died: nothing of the old incarnation runs again
		case crashArmed:
			l.verify(q, "before crash", true)
			sim.Fault("crash-idle")
			l.crashed = true
			sim.Kill(inc)
		case op.S == "reopen":
			l.verify(q, "before close", true)
			q.Close()
			sim.Fault("close-reopen")
		default:
			l.verify(q, "after appends", true)
		}
		if c.Violated() {
			return
		}
		if crashArmed || op.S == "reopen" {
			q, err = queue.NewQueue(dir, PageSize)
			if err != nil {
				c.Violate("C05/reopen-failed", "NewQueue after %s: %v", op.S, err)
				return
			}
			l.verify(q, "after "+op.S+"+reopen", true)
			if c.Violated() {
				return
			}
			if l.crashed {
				// from here on the number of stored messages is known exactly again
				n := int(q.AppendedSeq() + 1)
				l.nAcked, l.nInvoked, l.crashed = n, n, false
			}
		}
	}
	q.Close()
	_ = simrt.S
}
