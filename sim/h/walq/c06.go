package walq

import (
	"fmt"
	"math/rand"
	"os"
	"sort"
	"time"

	"github.com/lindb/lindb/pkg/queue"

	"verifsim/core"
	"verifsim/simrt"
)

// ---- C06: consumer groups -------------------------------------------------

func genC06(rng *rand.Rand, tier string) *core.Plan {
	p := &core.Plan{Harness: "walq", Prop: "C06", Cfg: map[string]int{}}
	groups := 1 + rng.Intn(3)
	p.Cfg["groups"] = groups
	if rng.Intn(8) == 0 {
		// a follower's log: its local replicator consumes and acknowledges in one task and waits inside Consume when
		// the log is drained; the stream handler's task moves the index forward (the handshake's reset) and appends
		p.Cfg["conc"] = 2
		p.Cfg["preempt_pm"] = pick(rng, 0, 20, 80, 200)
		p.Cfg["switch_pm"] = pick(rng, 100, 400)
		for r := 1 + rng.Intn(3); r > 0; r-- {
			if rng.Intn(4) != 0 {
				p.Ops = append(p.Ops, core.Op{K: "reset", A: int64(1 + rng.Intn(12))})
			}
			for n := 1 + rng.Intn(4); n > 0; n-- {
				p.Ops = append(p.Ops, core.Op{K: "put", A: int64(8 + rng.Intn(40))})
			}
			p.Ops = append(p.Ops, core.Op{K: "drain"})
		}
		return p
	}
	if rng.Intn(3) == 0 {
		// concurrent consume-vs-ack on one group
		p.Cfg["conc"] = 1
		p.Cfg["preempt_pm"] = pick(rng, 20, 80, 200, 400)
		p.Cfg["switch_pm"] = pick(rng, 100, 400)
		n := 2 + rng.Intn(8)
		for i := 0; i < n; i++ {
			p.Ops = append(p.Ops, core.Op{K: "put", A: int64(8 + rng.Intn(40))})
		}
		for i := 0; i < n; i++ {
			p.Ops = append(p.Ops, core.Op{K: "consume"})
		}
		na := 2 + rng.Intn(8)
		for i := 0; i < na; i++ {
			// ack target relative to the consumed position seen by the acker: delta in [-3, +2]
			p.Ops = append(p.Ops, core.Op{K: "ack", A: int64(rng.Intn(6) - 3)})
		}
		ns := rng.Intn(4)
		for i := 0; i < ns; i++ {
			p.Ops = append(p.Ops, core.Op{K: []string{"sync", "gc"}[rng.Intn(2)]})
		}
		// a second group is created while the others work (a follower that joins): it exists from the moment
		// the call returns, and the queue ack must never be beyond its acknowledged position afterwards
		p.Cfg["late_group"] = rng.Intn(2)
		return p
	}
	p.Cfg["preempt_pm"] = 0
	n := 5 + rng.Intn(36)
	big := rng.Intn(3) == 0
	for i := 0; i < n; i++ {
		g := rng.Intn(groups)
		switch r := rng.Intn(100); {
		case r < 28:
			size := 8 + rng.Intn(40)
			if big || rng.Intn(5) == 0 {
				size = pick(rng, 120, 200, 256, 400, PageSize)
			}
			p.Ops = append(p.Ops, core.Op{K: "put", A: int64(size)})
		case r < 36:
			p.Ops = append(p.Ops, core.Op{K: "create", T: g})
		case r < 56:
			p.Ops = append(p.Ops, core.Op{K: "consume", T: g})
		case r < 72:
			// absolute target chosen from the model at run time: A = percentage selector, B = mode
			p.Ops = append(p.Ops, core.Op{K: "ack", T: g, A: int64(rng.Intn(100)), B: int64(rng.Intn(5))})
		case r < 76:
			p.Ops = append(p.Ops, core.Op{K: "setconsumed", T: g, A: int64(rng.Intn(100))})
		case r < 86:
			p.Ops = append(p.Ops, core.Op{K: "sync"})
		case r < 92:
			p.Ops = append(p.Ops, core.Op{K: "gc"})
		case r < 95:
			p.Ops = append(p.Ops, core.Op{K: "stop", T: g})
		case r < 97:
			// the explicit index reset of the statement (FanOutQueue.SetAppendedSeq: what a follower does when the
			// handshake tells it the leader's position): A selects the target around the appended position
			p.Ops = append(p.Ops, core.Op{K: "reset", A: int64(rng.Intn(100)), B: int64(rng.Intn(3))})
		default:
			p.Ops = append(p.Ops, core.Op{K: "reopen"})
		}
	}
	p.Ops = append(p.Ops, core.Op{K: "sync"}, core.Op{K: "gc"}, core.Op{K: "reopen"})
	return p
}

type mgroup struct {
	cg       queue.ConsumerGroup
	open     bool
	consumed int64
	ack      int64
}

type c06 struct {
	c        *core.RunCtx
	fq       queue.FanOutQueue
	dir      string
	groups   map[string]*mgroup
	appended int64
	qack     int64
	msgs     map[int64]int64 // seq -> message id
	nextID   int64
}

func gname(i int) string { return fmt.Sprintf("g%d", i) }

func (m *c06) names() []string {
	var ns []string
	for n := range m.groups {
		ns = append(ns, n)
	}
	sort.Strings(ns)
	return ns
}

// check compares the real positions with the model and evaluates the invariants of the statement.
func (m *c06) check(after string) {
	c := m.c
	c.Oracle()
	q := m.fq.Queue()
	app, qack := q.AppendedSeq(), q.AcknowledgedSeq()
	if app != m.appended {
		c.Violate("C06/appended-mismatch", "after %s: appended %d, expected %d", after, app, m.appended)
		return
	}
	if qack < m.qack {
		c.Violate("C06/queue-ack-moved-backwards", "after %s: queue ack %d < previous %d", after, qack, m.qack)
		return
	}
	if qack > app {
		c.Violate("C06/queue-ack-beyond-appended", "after %s: queue ack %d > appended %d", after, qack, app)
		return
	}
	if qack > m.qack {
		// it moved: must not exceed the smallest ack of the groups existing now
		for _, n := range m.names() {
			g := m.groups[n]
			if g.open && qack > g.cg.AcknowledgedSeq() {
				c.Violate("C06/queue-ack-beyond-group-ack", "after %s: queue ack moved %d -> %d but group %s has acknowledged only %d", after, m.qack, qack, n, g.cg.AcknowledgedSeq())
				return
			}
		}
	}
	m.qack = qack
	for _, n := range m.names() {
		g := m.groups[n]
		if !g.open {
			continue
		}
		ca, cc := g.cg.AcknowledgedSeq(), g.cg.ConsumedSeq()
		if !(ca <= cc && cc <= app) {
			c.Violate("C06/position-order", "after %s: group %s acknowledged=%d consumed=%d appended=%d", after, n, ca, cc, app)
			return
		}
		if ca != g.ack || cc != g.consumed {
			c.Violate("C06/position-mismatch", "after %s: group %s acknowledged=%d consumed=%d, model says %d/%d", after, n, ca, cc, g.ack, g.consumed)
			return
		}
	}
	// every message above the queue ack is readable with its bytes
	for s := qack + 1; s <= app; s++ {
		data, err := q.Get(s)
		if err != nil {
			c.Violate("C06/unacked-message-unreadable", "after %s: Get(%d): %v (queue ack %d, appended %d)", after, s, err, qack, app)
			return
		}
		id, ok := parse(data)
		if !ok || id != m.msgs[s] {
			c.Violate("C06/unacked-message-corrupt", "after %s: sequence %d holds message %d (valid=%v), expected %d", after, s, id, ok, m.msgs[s])
			return
		}
	}
}

func (m *c06) minOpenAck() (int64, bool) {
	min, any := int64(0), false
	for _, g := range m.groups {
		if g.open && (!any || g.ack < min) {
			min, any = g.ack, true
		}
	}
	return min, any
}

func runC06(c *core.RunCtx) {
	if c.Plan.C("conc", 0) == 1 {
		runC06conc(c)
		return
	}
	if c.Plan.C("conc", 0) == 2 {
		runC06follower(c)
		return
	}
	sim := c.Sim
	m := &c06{c: c, dir: c.Dir + "/fq", groups: map[string]*mgroup{}, appended: -1, qack: -1, msgs: map[int64]int64{}}
	var err error
	m.fq, err = queue.NewFanOutQueue(m.dir, PageSize)
	if err != nil {
		c.Anomaly("NewFanOutQueue: %v", err)
		return
	}
	for _, op := range c.Plan.Ops {
		if c.Violated() {
			break
		}
		name := gname(op.T)
		g := m.groups[name]
		sim.Event("op %s", op.String())
		switch op.K {
		case "put":
			m.nextID++
			if err := m.fq.Queue().Put(message(m.nextID, int(op.A))); err != nil {
				c.Anomaly("Put: %v", err)
				return
			}
			m.appended++
			m.msgs[m.appended] = m.nextID
		case "create":
			cg, err := m.fq.GetOrCreateConsumerGroup(name)
			if err != nil {
				c.Anomaly("create group: %v", err)
				return
			}
			if g == nil {
				// brand-new group: the statement fixes no start position beyond the invariants
				g = &mgroup{consumed: cg.ConsumedSeq(), ack: cg.AcknowledgedSeq()}
				m.groups[name] = g
			} else if !g.open {
				// re-created from its persisted meta after a stop: positions as persisted,
				// ack may be raised to the queue ack ("a reopened group never starts below the queue ack")
				g.consumed, g.ack = cg.ConsumedSeq(), cg.AcknowledgedSeq()
			}
			g.cg, g.open = cg, true
		case "consume":
			if g == nil || !g.open || g.consumed >= m.appended {
				continue // Consume would block: nothing to hand out
			}
			s := g.cg.Consume()
			if s != g.consumed+1 {
				c.Violate("C06/consume-not-consecutive", "group %s consumed=%d, Consume returned %d", name, g.consumed, s)
				break
			}
			g.consumed = s
		case "ack":
			if g == nil || !g.open {
				continue
			}
			var target int64
			switch op.B {
			case 0: // below the window
				target = g.ack - 1 - op.A%3
			case 1: // above the window
				target = g.consumed + 1 + op.A%3
			default: // inside [ack, consumed]
				target = g.ack + (g.consumed-g.ack+1)*op.A/100
			}
			g.cg.Ack(target)
			if target >= g.ack && target <= g.consumed {
				g.ack = target
			}
			sim.Event("ack %s %d", name, target)
		case "setconsumed":
			if g == nil || !g.open {
				continue
			}
			// rewind / forward inside [ack, appended] (the replicator's use: back to ack)
			target := g.ack + (m.appended-g.ack+1)*op.A/100
			if target > m.appended {
				target = m.appended
			}
			g.cg.SetConsumedSeq(target)
			g.consumed = target
		case "reset":
			// forwards only (beyond the appended position): the handshake's use on both sides. lindb never issues a
			// backward reset; with VERIF_C06_BACKWARD_RESET=1 (exploration, not part of the check) B = 0 resets into
			// the appended range - stale index entries beyond the new position then mislead a later GC (a backward
			// reset, reopen, forward reset, append, GC history loses the new message)
			target := m.appended + 1 + op.A%4
			if op.B == 0 && os.Getenv("VERIF_C06_BACKWARD_RESET") != "" {
				target = m.qack + (m.appended-m.qack+1)*op.A/100
			}
			sim.Fault("index-reset")
			sim.Event("reset to %d", target)
			m.fq.SetAppendedSeq(target)
			// everything is at the new position: the queue and every existing group
			m.appended, m.qack = target, target
			for _, n := range m.names() {
				if og := m.groups[n]; og.open {
					og.consumed, og.ack = target, target
				}
			}
		case "sync":
			m.fq.Sync()
		case "gc":
			m.fq.Queue().GC()
		case "stop":
			if g == nil || !g.open {
				continue
			}
			m.fq.StopConsumerGroup(name)
			g.open = false
		case "reopen":
			m.fq.Close()
			sim.Fault("close-reopen")
			m.fq, err = queue.NewFanOutQueue(m.dir, PageSize)
			if err != nil {
				c.Violate("C06/reopen-failed", "NewFanOutQueue: %v", err)
				break
			}
			// all groups that have a directory exist again
			for _, n := range m.names() {
				g := m.groups[n]
				cg, err := m.fq.GetOrCreateConsumerGroup(n)
				if err != nil {
					c.Anomaly("reopen group: %v", err)
					return
				}
				wasOpen := g.open
				g.cg, g.open = cg, true
				if !wasOpen {
					g.consumed, g.ack = cg.ConsumedSeq(), cg.AcknowledgedSeq()
				} else if g.ack < m.qack {
					// "a reopened group never starts below the queue ack"
					g.ack = m.qack
					if g.consumed < g.ack {
						g.consumed = g.ack
					}
				}
			}
		}
		if !c.Violated() {
			m.check(op.String())
		}
	}
	m.fq.Close()
}

// runC06conc: one appender, one consumer and one acker on the same group, plus a
// maintenance task (Sync/GC); positions are monitored at every scheduling step.
func runC06conc(c *core.RunCtx) {
	sim := c.Sim
	dir := c.Dir + "/fq"
	fq, err := queue.NewFanOutQueue(dir, PageSize)
	if err != nil {
		c.Anomaly("NewFanOutQueue: %v", err)
		return
	}
	cg, err := fq.GetOrCreateConsumerGroup("g0")
	if err != nil {
		c.Anomaly("group: %v", err)
		return
	}
	var puts, consumes, acks, maint []core.Op
	for _, op := range c.Plan.Ops {
		switch op.K {
		case "put":
			puts = append(puts, op)
		case "consume":
			consumes = append(consumes, op)
		case "ack":
			acks = append(acks, op)
		default:
			maint = append(maint, op)
		}
	}
	if len(consumes) > len(puts) {
		consumes = consumes[:len(puts)]
	}
	invoked, done := int64(0), int64(0)
	msgs := map[int64]int64{}
	running := 4
	var late queue.ConsumerGroup
	sim.OnStep = func() {
		a, cs := cg.AcknowledgedSeq(), cg.ConsumedSeq()
		if a > cs {
			c.Violate("C06/position-order", "concurrent: acknowledged=%d > consumed=%d", a, cs)
		}
		if cs > invoked-1 {
			c.Violate("C06/position-order", "concurrent: consumed=%d > appended<=%d", cs, invoked-1)
		}
	}
	sim.Spawn("appender", func() {
		for i, op := range puts {
			invoked++
			msgs[int64(i)] = int64(i + 1)
			if err := fq.Queue().Put(message(int64(i+1), int(op.A))); err != nil {
				c.Anomaly("Put: %v", err)
			}
			done++
		}
		running--
	})
	sim.Spawn("consumer", func() {
		prev := int64(-1)
		for range consumes {
			s := cg.Consume()
			c.Oracle()
			if s != prev+1 {
				c.Violate("C06/consume-not-consecutive", "concurrent: previous %d, Consume returned %d", prev, s)
				break
			}
			prev = s
		}
		running--
	})
	sim.Spawn("acker", func() {
		myAck := cg.AcknowledgedSeq()
		for _, op := range acks {
			lo := cg.ConsumedSeq()
			target := lo + op.A
			cg.Ack(target)
			hi := cg.ConsumedSeq()
			got := cg.AcknowledgedSeq()
			c.Oracle()
			switch {
			case target < myAck || target > hi:
				if got != myAck {
					c.Violate("C06/out-of-window-ack-applied", "concurrent: ack %d outside [%d, %d] changed acknowledged to %d", target, myAck, hi, got)
				}
			case target <= lo:
				if got != target {
					c.Violate("C06/in-window-ack-ignored", "concurrent: ack %d inside [%d, %d] left acknowledged at %d", target, myAck, lo, got)
				}
			default:
				if got != target && got != myAck {
					c.Violate("C06/ack-wrong-value", "concurrent: ack %d gave acknowledged %d", target, got)
				}
			}
			myAck = got
			sim.YieldNow()
		}
		running--
	})
	if c.Plan.C("late_group", 0) == 1 {
		running++
		sim.Spawn("creator", func() {
			sim.YieldNow()
			g, err := fq.GetOrCreateConsumerGroup("g1")
			if err != nil {
				c.Anomaly("late group: %v", err)
			} else {
				late = g
				sim.Probe("group-created-concurrently")
			}
			running--
		})
	}
	sim.Spawn("maint", func() {
		prevQ := int64(-1)
		for _, op := range maint {
			if op.K == "sync" {
				before := cg.AcknowledgedSeq()
				fq.Sync()
				qa := fq.Queue().AcknowledgedSeq()
				after := cg.AcknowledgedSeq()
				c.Oracle()
				if qa < prevQ {
					c.Violate("C06/queue-ack-moved-backwards", "concurrent: %d -> %d", prevQ, qa)
				}
				if qa > prevQ && qa > after {
					c.Violate("C06/queue-ack-beyond-group-ack", "concurrent: queue ack %d, group acknowledged between %d and %d", qa, before, after)
				}
				if l := late; l != nil && qa > l.AcknowledgedSeq() {
					c.Violate("C06/queue-ack-beyond-group-ack", "concurrent: queue ack %d is beyond the acknowledged position %d of the group created meanwhile", qa, l.AcknowledgedSeq())
				}
				prevQ = qa
			} else {
				fq.Queue().GC()
			}
			sim.YieldNow()
		}
		running--
	})
	sim.Await(func() bool { return running == 0 || c.Violated() })
	sim.OnStep = nil
	if c.Violated() {
		return
	}
	if late != nil {
		// (the group never acknowledges anything, so a queue ack that overtook it stays beyond it; the queue's
		// accessor takes a lock and cannot be read from the step monitor)
		if qa, la := fq.Queue().AcknowledgedSeq(), late.AcknowledgedSeq(); qa > la {
			c.Violate("C06/queue-ack-beyond-group-ack", "concurrent: queue ack %d is beyond the acknowledged position %d of the group created meanwhile", qa, la)
			return
		}
	}
	// final: everything above the queue ack still readable
	q := fq.Queue()
	for s := q.AcknowledgedSeq() + 1; s <= q.AppendedSeq(); s++ {
		data, err := q.Get(s)
		id, ok := parse(data)
		if err != nil || !ok || id != msgs[s] {
			c.Violate("C06/unacked-message-unreadable", "concurrent: sequence %d: err=%v valid=%v id=%d", s, err, ok, id)
			return
		}
	}
	// all positions survive close and reopen: what the group and the queue persisted while consumer, acker and
	// housekeeping overlapped must be what they had in memory when everything came to rest
	wantCons, wantAck, wantQAck, wantApp := cg.ConsumedSeq(), cg.AcknowledgedSeq(), q.AcknowledgedSeq(), q.AppendedSeq()
	fq.Close()
	sim.Fault("close-reopen")
	fq2, err := queue.NewFanOutQueue(dir, PageSize)
	if err != nil {
		c.Violate("C06/reopen-failed", "NewFanOutQueue after the concurrent phase: %v", err)
		return
	}
	defer fq2.Close()
	cg2, err := fq2.GetOrCreateConsumerGroup("g0")
	if err != nil {
		c.Violate("C06/reopen-failed", "group after the concurrent phase: %v", err)
		return
	}
	// the queue ack is persisted by Sync only: it may lag, never lead; a reopened group never starts below it
	if gotQ := fq2.Queue().AcknowledgedSeq(); gotQ > wantQAck {
		c.Violate("C06/position-mismatch", "concurrent, after reopen: queue ack %d, it was %d", gotQ, wantQAck)
		return
	}
	if fq2.Queue().AppendedSeq() != wantApp || cg2.ConsumedSeq() != wantCons || cg2.AcknowledgedSeq() != wantAck {
		c.Violate("C06/position-mismatch", "concurrent, after reopen: appended=%d consumed=%d acknowledged=%d, before the close they were %d/%d/%d",
			fq2.Queue().AppendedSeq(), cg2.ConsumedSeq(), cg2.AcknowledgedSeq(), wantApp, wantCons, wantAck)
		return
	}
	sim.Probe("concurrent-reopen-checked")
}

// runC06follower: the log of a follower. One task consumes and acknowledges message by message and waits inside Consume
// when nothing is left (the local replicator); the other one is the stream handler: it moves the index forward while the
// consumer waits (FanOutQueue.SetAppendedSeq, the handshake's reset - the explicit index reset of the statement), appends,
// and lets the consumer drain the log. After a reset to n the next sequence handed out is n+1, consecutive from there.
func runC06follower(c *core.RunCtx) {
	sim := c.Sim
	dir := c.Dir + "/fq"
	fq, err := queue.NewFanOutQueue(dir, PageSize)
	if err != nil {
		c.Anomaly("NewFanOutQueue: %v", err)
		return
	}
	cg, err := fq.GetOrCreateConsumerGroup("g0")
	if err != nil {
		c.Anomaly("group: %v", err)
		return
	}
	appended := int64(-1) // model: position of the last message appended (or of the last reset)
	expect := int64(0)    // next sequence the consumer must receive
	msgs := map[int64]int64{}
	stop := false
	resetting := false
	epoch := 0        // number of resets so far
	done := int64(-1) // last sequence consumed and acknowledged (or the position of the last reset)
	consumerDone := false
	sim.Spawn("consumer", func() {
		defer func() { consumerDone = true }()
		for !stop && !c.Violated() {
			s := cg.Consume()
			if resetting {
				// handed out while the reset was moving the queue and the group (the statement's exemption): the
				// positions the reset leaves behind are what counts
				sim.Probe("consume-returned-inside-reset")
				sim.Await(func() bool { return !resetting })
				continue
			}
			if s < 0 {
				// closed, or nothing to hand out after all: the replica loop asks again
				if stop {
					return
				}
				simrt.Sleep(time.Millisecond)
				continue
			}
			c.Oracle()
			if s != expect {
				c.Violate("C06/consume-not-consecutive", "follower log: Consume returned %d, the next sequence is %d (appended %d)", s, expect, appended)
				return
			}
			data, err := fq.Queue().Get(s)
			if id, ok := parse(data); err != nil || !ok || id != msgs[s] {
				c.Violate("C06/unacked-message-unreadable", "follower log: sequence %d handed out by Consume: err=%v valid=%v id=%d, expected message %d", s, err, ok, id, msgs[s])
				return
			}
			expect = s + 1
			e0 := epoch
			cg.Ack(s)
			got := cg.AcknowledgedSeq()
			if epoch != e0 || resetting {
				continue // the index was reset under the acknowledgement
			}
			done = s
			if got != s {
				c.Violate("C06/in-window-ack-ignored", "follower log: ack %d of the sequence just consumed left acknowledged at %d", s, got)
				return
			}
		}
	})
	id := int64(0)
	ops := append(append([]core.Op{}, c.Plan.Ops...), core.Op{K: "drain"}) // also when shrinking removed it
	for _, op := range ops {
		if c.Violated() || consumerDone {
			break
		}
		sim.Event("op %s", op.String())
		switch op.K {
		case "reset":
			// only while the consumer has nothing left (it waits inside Consume, or is about to)
			target := appended + op.A
			sim.Fault("index-reset-under-waiting-consumer")
			resetting = true
			fq.SetAppendedSeq(target)
			epoch++
			appended, expect, done, resetting = target, target+1, target, false
		case "put":
			id++
			msgs[appended+1] = id
			if err := fq.Queue().Put(message(id, int(op.A))); err != nil {
				c.Anomaly("Put: %v", err)
				return
			}
			appended++
		case "drain":
			t0 := sim.Elapsed()
			sim.Await(func() bool {
				return done == appended || c.Violated() || consumerDone || sim.Elapsed()-t0 > time.Minute
			})
			if done != appended && !c.Violated() {
				c.Violate("C06/consume-not-consecutive", "follower log: the consumer received nothing beyond %d within a simulated minute although the log holds messages up to %d", expect-1, appended)
			}
			if !c.Violated() {
				fq.Sync()
				ca, cc, qa, app := cg.AcknowledgedSeq(), cg.ConsumedSeq(), fq.Queue().AcknowledgedSeq(), fq.Queue().AppendedSeq()
				c.Oracle()
				if !(ca == appended && cc == appended && app == appended && qa <= ca) {
					c.Violate("C06/position-mismatch", "follower log, drained: acknowledged=%d consumed=%d appended=%d queue ack=%d, everything up to %d was consumed and acknowledged", ca, cc, app, qa, appended)
				}
			}
		}
	}
	stop = true
	if c.Violated() {
		return
	}
	fq.Close() // wakes the waiting consumer
	sim.Fault("close-reopen")
	fq2, err := queue.NewFanOutQueue(dir, PageSize)
	if err != nil {
		c.Violate("C06/reopen-failed", "NewFanOutQueue of the follower log: %v", err)
		return
	}
	defer fq2.Close()
	cg2, err := fq2.GetOrCreateConsumerGroup("g0")
	if err != nil {
		c.Violate("C06/reopen-failed", "group of the follower log: %v", err)
		return
	}
	if fq2.Queue().AppendedSeq() != appended || cg2.ConsumedSeq() != appended || cg2.AcknowledgedSeq() != appended {
		c.Violate("C06/position-mismatch", "follower log, after reopen: appended=%d consumed=%d acknowledged=%d, before the close they all were %d",
			fq2.Queue().AppendedSeq(), cg2.ConsumedSeq(), cg2.AcknowledgedSeq(), appended)
	}
}
