// Package repl simulates WAL replication (C08): real replica.WriteAheadLogManager,
// partitions, local and remote replicators on a leader, the real storage RPC
// ReplicaHandler on followers, over simulated streams that can break.
package repl

import (
	"bytes"
	"context"
	"encoding/binary"
	"errors"
	"fmt"
	"io"
	"math/rand"
	"os"
	"os/exec"
	"path/filepath"
	"sort"
	"strings"
	"sync"
	"time"

	"github.com/lindb/common/pkg/ltoml"
	commontimeutil "github.com/lindb/common/pkg/timeutil"
	"google.golang.org/grpc"
	"google.golang.org/grpc/metadata"

	storagerpc "github.com/lindb/lindb/app/storage/rpc"
	"github.com/lindb/lindb/config"
	"github.com/lindb/lindb/constants"
	"github.com/lindb/lindb/coordinator/storage"
	"github.com/lindb/lindb/models"
	"github.com/lindb/lindb/pkg/option"
	"github.com/lindb/lindb/pkg/queue"
	"github.com/lindb/lindb/pkg/timeutil"
	protoCommonV1 "github.com/lindb/lindb/proto/gen/v1/common"
	protoReplicaV1 "github.com/lindb/lindb/proto/gen/v1/replica"
	protoWriteV1 "github.com/lindb/lindb/proto/gen/v1/write"
	"github.com/lindb/lindb/replica"
	"github.com/lindb/lindb/rpc"
	"github.com/lindb/lindb/series/metric"
	"github.com/lindb/lindb/tsdb"

	"verifsim/core"
	"verifsim/simrt"
)

type H struct{}

func init() { core.Register(H{}) }

func (H) Name() string { return "repl" }

const (
	dbName     = "db"
	familyTime = int64(946684800000) // 2000-01-01
	leaderID   = 1
	followerID = 2
	thirdID    = 3 // a second follower (replica factor 3): absent for the whole run, or alive and undisturbed
)

func (H) Gen(prop string, rng *rand.Rand, tier string) *core.Plan {
	p := &core.Plan{Harness: "repl", Prop: "C08", Cfg: map[string]int{}}
	p.Cfg["preempt_pm"] = []int{0, 2, 10, 40}[rng.Intn(4)]
	p.Cfg["switch_pm"] = []int{50, 200, 500}[rng.Intn(3)]
	p.Cfg["fault_pm"] = []int{0, 20, 60, 150}[rng.Intn(4)] // per stream operation
	p.Cfg["max_steps"] = 3000000
	// stalls inside the follower's stream handlers (check-then-append of ReplicaLog, queue.Put): two
	// handlers of one partition are alive together only around a broken stream, a short window
	p.Cfg["hot_pm"] = []int{0, 0, 30, 100}[rng.Intn(4)]
	n := 4 + rng.Intn(14)
	if rng.Intn(4) == 0 {
		// the follower is stopped gracefully while the very first messages of the log are on their way
		// (held back by an offline phase): its partition may be closed when the request is handled
		p.Ops = append(p.Ops, core.Op{K: "offline", A: []int64{1, 5}[rng.Intn(2)]}, core.Op{K: "put", A: int64(1 + rng.Intn(3)), B: int64(8 + rng.Intn(120))},
			core.Op{K: "restart_f", A: 0})
		if rng.Intn(3) == 0 {
			p.Ops = append(p.Ops[:len(p.Ops)-1], core.Op{K: "wait", A: 1}, core.Op{K: "restart_f", A: 0})
		}
	}
	for i := 0; i < n; i++ {
		switch r := rng.Intn(100); {
		case r < 4:
			// the follower's node flaps: offline and online again within a few scheduling steps, possibly right
			// after the leader's replicator started (re)connecting
			if rng.Intn(2) == 0 {
				p.Ops = append(p.Ops, core.Op{K: "restart_l", A: 0})
			}
			p.Ops = append(p.Ops, core.Op{K: "flap", A: int64(1 + rng.Intn(3))}, core.Op{K: "put", A: 1, B: int64(8 + rng.Intn(120))})
		case r < 40:
			p.Ops = append(p.Ops, core.Op{K: "put", A: int64(1 + rng.Intn(6)), B: int64(8 + rng.Intn(120))})
		case r < 55:
			p.Ops = append(p.Ops, core.Op{K: "wait", A: []int64{1, 5, 50, 2000}[rng.Intn(4)]})
		case r < 63:
			p.Ops = append(p.Ops, core.Op{K: "restart_f", A: int64(rng.Intn(3))})
		case r < 70:
			p.Ops = append(p.Ops, core.Op{K: "offline", A: []int64{1, 20, 500}[rng.Intn(3)]})
		case r < 80:
			p.Ops = append(p.Ops, core.Op{K: "gc"})
		case r < 82:
			p.Ops = append(p.Ops, core.Op{K: "snap_l"})
		case r < 85:
			// the leader loses exactly the last k messages of its log, which the follower already has:
			// catch up, image, k messages, catch up, restart from the image
			k := int64([]int{1, 1, 2}[rng.Intn(3)])
			p.Ops = append(p.Ops, core.Op{K: "wait", A: 50}, core.Op{K: "snap_l"},
				core.Op{K: "put", A: k, B: int64(8 + rng.Intn(120))}, core.Op{K: "wait", A: 50}, core.Op{K: "restart_l", A: 2})
		case r < 92:
			p.Ops = append(p.Ops, core.Op{K: "restart_l", A: int64(rng.Intn(3))})
		default:
			p.Ops = append(p.Ops, core.Op{K: "online_dup"})
		}
	}
	// a third replica of the shard: the leader's one replica loop then serves two remote replicators (and the leader's
	// log is collected by the minimum over three groups). 1 = its node is down for the whole run (the other follower
	// must not be held up by it), 2 = alive and left alone apart from the transport faults (its log must be the same
	// gap-free copy; histories without a leader tail loss, whose exemptions are kept per follower 2 only)
	if rng.Intn(6) == 0 {
		// the follower loses its log IN PLACE: its storage has flushed everything the log held, the family is out of the
		// writable range, and the follower's own log manager destroys the consumed log (hourly housekeeping) while its
		// process - and the leader's stream to it - stay alive; the leader still gets (late) messages for that family
		p.Cfg["f_expiry"] = 1
		at := 1 + rng.Intn(len(p.Ops))
		p.Ops = append(p.Ops[:at], append([]core.Op{{K: "put", A: int64(1 + rng.Intn(3)), B: int64(8 + rng.Intn(60))}, {K: "expire_f"},
			{K: "put", A: int64(1 + rng.Intn(3)), B: int64(8 + rng.Intn(60))}}, p.Ops[at:]...)...)
	}
	// 3 = like 2, but it JOINS later: the leader's partition is built for one follower; from the `join` operation on the
	// write streams name it as a replica (BuildReplicaForLeader creates its consumer group on a log that holds messages,
	// the handshake resets the newcomer to the leader's position) - in half of those plans the leader dies inside that
	// creation (A = the yield point of the queue / page packages at which it dies) and recovers
	p.Cfg["third"] = []int{0, 0, 1, 2, 3}[rng.Intn(5)]
	if p.Cfg["third"] == 3 {
		at := 1 + rng.Intn(len(p.Ops))
		join := core.Op{K: "join"}
		if rng.Intn(2) == 0 {
			join.A = int64(1 + rng.Intn(40))
		}
		p.Ops = append(p.Ops[:at], append([]core.Op{{K: "put", A: int64(1 + rng.Intn(3)), B: int64(8 + rng.Intn(60))}, join}, p.Ops[at:]...)...)
	}
	if p.Cfg["third"] >= 2 {
		ops := p.Ops[:0]
		for _, op := range p.Ops {
			if op.K == "snap_l" {
				continue
			}
			if op.K == "restart_l" && op.A == 2 {
				op.A = 1
			}
			ops = append(ops, op)
		}
		p.Ops = ops
	}
	return p
}

func (H) End(c *core.RunCtx, end string) (string, string) {
	return "", "scheduler ended before the harness finished"
}

// ---- tsdb stubs (interfaces; replication of a log never touches tsdb data) ------

type stubEngine struct {
	tsdb.Engine
	shard *stubShard
}

func (e *stubEngine) GetShard(_ string, id models.ShardID) (tsdb.Shard, bool) { return e.shard, true }

type stubDB struct{ tsdb.Database }

func (d *stubDB) Name() string                      { return dbName }
func (d *stubDB) GetOption() *option.DatabaseOption { return &option.DatabaseOption{} }

type stubShard struct {
	tsdb.Shard
	db  *stubDB
	fam *stubFamily
}

func (s *stubShard) Database() tsdb.Database { return s.db }
func (s *stubShard) ShardID() models.ShardID { return 0 }
func (s *stubShard) GetOrCrateDataFamily(int64) (tsdb.DataFamily, error) {
	return s.fam, nil
}

type stubFamily struct {
	tsdb.DataFamily
	n *node // the node this family lives on
}

// TimeRange: a family that can be written for the next hundred years, or (node.famExpired) the hour it really is -
// out of the writable range as soon as the simulated clock has passed it by more than the 15 minutes of the log manager
func (f *stubFamily) TimeRange() timeutil.TimeRange {
	if f.n != nil && f.n.famExpired {
		return timeutil.TimeRange{Start: familyTime, End: familyTime + 3600*1000 - 1}
	}
	return timeutil.TimeRange{Start: familyTime, End: familyTime + 1000*3600*24*365*100}
}
func (f *stubFamily) FamilyTime() int64 { return familyTime }

// AckSequence: the local replicator of a log registers what a flush of the family calls with the persisted sequence
func (f *stubFamily) AckSequence(leader int32, fn func(int64)) {
	if f.n != nil {
		f.n.flushAck = fn
	}
}
func (f *stubFamily) ValidateSequence(int32, int64) bool   { return true }
func (f *stubFamily) CommitSequence(int32, int64)          {}
func (f *stubFamily) WriteRows([]*metric.StorageRow) error { return nil }
func (f *stubFamily) Retain()                              {}
func (f *stubFamily) Release()                             {}

// ---- simulated cluster ---------------------------------------------------------

type node struct {
	id         int
	dir        string
	inc        int
	alive      bool
	walMgr     replica.WriteAheadLogManager
	handler    *storagerpc.ReplicaHandler
	cancel     context.CancelFunc
	part       replica.Partition // leader only: its own partition
	stopping   bool              // graceful shutdown has begun: the rpc server is already stopped (app/storage runtime.Stop)
	famExpired bool              // the node's storage considers the family out of the writable range
	flushAck   func(int64)       // what a flush of the family calls (registered by the local replicator of the newest log)
}

type cluster struct {
	c           *core.RunCtx
	sim         *simrt.Sim
	nodes       map[int]*node
	live        map[int]bool
	sm          *stateMgr // the state manager of the leader's current incarnation
	faultPM     int
	noFaults    bool
	streams     int
	streamTasks map[int]bool   // tasks that run a follower stream handler
	flapping    bool           // the follower's node is between offline and online of a flap
	putStarted  map[int64]bool // positions that were offered to a handler of the follower (it may have appended them)

	// ledger
	written     map[int64][]byte // leader sequence -> bytes as appended (of the leader's current log history)
	nextMsg     int64
	joining     bool  // third == 3: the write streams name the second follower as a replica from now on
	joined      bool  // ... and a BuildReplicaForLeader that named it has completed
	logLost     bool  // a follower's log was lost or the leader's tail was cut at some point of the history
	lostFrom    int64 // leader positions >= lostFrom were destroyed by a tail loss (exempt until re-established)
	prevAck     int64
	resetHW     bool
	appendedBy  map[int64]int            // follower position -> incarnation of the leader whose stream delivered it
	offered     map[int64]map[int][]byte // follower position -> leader incarnation -> the bytes a stream of that incarnation handed to a handler
	tailLostInc int                      // leader incarnation that started from a restored (older) log image, 0 = none
	third       int                      // 0 = two replicas, 1 = third replica's node never up, 2 = third replica alive
	allStreams  []*stream
}

func (cl *cluster) chance(kind string) bool {
	if cl.noFaults || cl.faultPM == 0 {
		return false
	}
	if cl.sim.Tape.Chance(float64(cl.faultPM) / 1000) {
		cl.sim.Fault(kind)
		cl.sim.Event("fault %s", kind)
		return true
	}
	return false
}

// ---- follower log whose append can fail (disk full, I/O error) ------------------------------------

type faultyLog struct {
	queue.FanOutQueue
	cl *cluster
}

func (l *faultyLog) Queue() queue.Queue { return &faultyQueue{Queue: l.FanOutQueue.Queue(), cl: l.cl} }

type faultyQueue struct {
	queue.Queue
	cl *cluster
}

func (q *faultyQueue) Put(b []byte) error {
	if q.cl.chance("follower-put-fails") {
		return errors.New("injected: no space left on device")
	}
	return q.Queue.Put(b)
}

// state manager stub. Like lindb's storage state manager it keeps its own view of the live nodes, changes it only
// when it processes a discovery event, and processes an event - calling the watchers - under its write lock while
// GetLiveNode takes the read lock (a watcher that blocks therefore blocks every reader).
type stateMgr struct {
	storage.StateManager // unused methods stay nil: a call would panic loudly
	cl                   *cluster
	mu                   sync.RWMutex
	live                 map[int]bool
	watchers             map[int][]func(models.NodeStateType)
	events               []func()
}

func newStateMgr(cl *cluster) *stateMgr {
	sm := &stateMgr{cl: cl, live: map[int]bool{}, watchers: map[int][]func(models.NodeStateType){}}
	for id, v := range cl.live {
		sm.live[id] = v
	}
	return sm
}

// run is the event loop of the manager (a task of the node's incarnation).
func (s *stateMgr) run() {
	for {
		s.cl.sim.Await(func() bool { return len(s.events) > 0 })
		ev := s.events[0]
		s.events = s.events[1:]
		simrt.Lock(&s.mu)
		ev()
		simrt.Unlock(&s.mu)
	}
}

func (s *stateMgr) GetLiveNode(id models.NodeID) (models.StatefulNode, bool) {
	simrt.RLock(&s.mu)
	defer simrt.RUnlock(&s.mu)
	if s.live[int(id)] {
		n := models.StatefulNode{ID: id}
		n.HostIP = fmt.Sprintf("10.0.0.%d", id)
		n.GRPCPort = 2891
		return n, true
	}
	return models.StatefulNode{}, false
}
func (s *stateMgr) WatchNodeStateChangeEvent(id models.NodeID, fn func(models.NodeStateType)) {
	simrt.Lock(&s.mu)
	defer simrt.Unlock(&s.mu)
	s.watchers[int(id)] = append(s.watchers[int(id)], fn)
}
func (s *stateMgr) GetLiveNodes() []models.StatefulNode            { return nil }
func (s *stateMgr) GetShardAssignments() []*models.ShardAssignment { return nil }

// client factory stub
type cliFct struct{ cl *cluster }

func (f *cliFct) LogicNode() models.Node { return &models.StatefulNode{ID: leaderID} }
func (f *cliFct) CreateTaskClient(models.Node) (protoCommonV1.TaskService_HandleClient, error) {
	return nil, errors.New("not simulated")
}
func (f *cliFct) CreateWriteServiceClient(models.Node) (protoWriteV1.WriteServiceClient, error) {
	return nil, errors.New("not simulated")
}
func (f *cliFct) CreateReplicaServiceClient(target models.Node) (protoReplicaV1.ReplicaServiceClient, error) {
	sn, ok := target.(*models.StatefulNode)
	if !ok {
		return nil, fmt.Errorf("unexpected node type %T", target)
	}
	return &simClient{cl: f.cl, target: int(sn.ID)}, nil
}

type simClient struct {
	cl     *cluster
	target int
}

var errUnavailable = errors.New("rpc error: code = Unavailable desc = simulated transport failure")

// callOn runs fn as a task of the target node's incarnation; the caller waits for
// its completion or for the death of the target.
func (cl *cluster) callOn(target int, fn func()) error {
	simrt.Sleep(time.Millisecond) // network latency (also lets simulated time advance during retry loops)
	n := cl.nodes[target]
	if n == nil || !n.alive || n.stopping {
		return errUnavailable
	}
	inc := n.inc
	done := false
	cl.sim.SpawnIn(inc, "rpc", func() {
		fn()
		done = true
	})
	cl.sim.Await(func() bool { return done || !n.alive || n.inc != inc })
	if !done {
		return errUnavailable
	}
	return nil
}

func (c *simClient) GetReplicaAckIndex(ctx context.Context, in *protoReplicaV1.GetReplicaAckIndexRequest, _ ...grpc.CallOption) (*protoReplicaV1.GetReplicaAckIndexResponse, error) {
	if c.cl.chance("unary-fail-before") {
		return nil, errUnavailable
	}
	var resp *protoReplicaV1.GetReplicaAckIndexResponse
	var err error
	if e := c.cl.callOn(c.target, func() {
		resp, err = c.cl.nodes[c.target].handler.GetReplicaAckIndex(ctx, in)
	}); e != nil {
		return nil, e
	}
	if err == nil {
		c.cl.sim.Event("rpc GetReplicaAckIndex -> %d", resp.AckIndex)
	}
	if err == nil && c.cl.chance("unary-fail-after") {
		return nil, errUnavailable
	}
	return resp, err
}

func (c *simClient) Reset(ctx context.Context, in *protoReplicaV1.ResetIndexRequest, _ ...grpc.CallOption) (*protoReplicaV1.ResetIndexResponse, error) {
	if c.cl.chance("unary-fail-before") {
		return nil, errUnavailable
	}
	var resp *protoReplicaV1.ResetIndexResponse
	var err error
	if e := c.cl.callOn(c.target, func() { resp, err = c.cl.nodes[c.target].handler.Reset(ctx, in) }); e != nil {
		return nil, e
	}
	c.cl.sim.Probe("follower-append-index-reset")
	c.cl.sim.Event("rpc Reset append index %d err=%v", in.AppendIndex, err)
	if err == nil && c.cl.chance("unary-fail-after") {
		return nil, errUnavailable
	}
	return resp, err
}

// stream pair
type stream struct {
	cl        *cluster
	id        int
	target    *node
	inc       int
	ctx       context.Context
	toSrv     []*protoReplicaV1.ReplicaRequest
	toCli     []*protoReplicaV1.ReplicaResponse
	leaderInc int  // incarnation of the leader that opened the stream
	broken    bool // client side gave up / transport broke
	closed    bool // client CloseSend
	srvDone   bool
}

func (c *simClient) Replica(ctx context.Context, _ ...grpc.CallOption) (protoReplicaV1.ReplicaService_ReplicaClient, error) {
	cl := c.cl
	simrt.Sleep(time.Millisecond)
	n := cl.nodes[c.target]
	if n == nil || !n.alive || n.stopping || cl.chance("stream-open-fail") {
		return nil, errUnavailable
	}
	md, _ := metadata.FromOutgoingContext(ctx)
	cl.streams++
	st := &stream{cl: cl, id: cl.streams, target: n, inc: n.inc, leaderInc: cl.nodes[leaderID].inc, ctx: metadata.NewIncomingContext(context.Background(), md)}
	cl.allStreams = append(cl.allStreams, st)
	cl.sim.SpawnIn(n.inc, fmt.Sprintf("stream%d", st.id), func() {
		cl.streamTasks[cl.sim.CurTask()] = true
		err := n.handler.Replica(&srvStream{st: st})
		cl.sim.Event("stream %d handler ended: %v", st.id, err)
		st.srvDone = true
	})
	return &cliStream{st: st}, nil
}

func (st *stream) targetGone() bool { return !st.target.alive || st.target.inc != st.inc }

type cliStream struct {
	grpc.ClientStream
	st *stream
}

func (s *cliStream) Send(m *protoReplicaV1.ReplicaRequest) error {
	st := s.st
	simrt.Sleep(time.Millisecond)
	if st.broken || st.targetGone() || st.srvDone {
		st.broken = true
		return errUnavailable
	}
	if st.cl.chance("break-before-delivery") {
		st.broken = true
		return errUnavailable
	}
	cp := &protoReplicaV1.ReplicaRequest{ReplicaIndex: m.ReplicaIndex, Record: append([]byte(nil), m.Record...)}
	st.toSrv = append(st.toSrv, cp)
	return nil
}

func (s *cliStream) Recv() (*protoReplicaV1.ReplicaResponse, error) {
	st := s.st
	if st.cl.chance("break-after-request") {
		// the request is (or will be) processed by the follower, the answer never arrives;
		// the handler of this dead stream keeps running: late (stale) delivery
		st.broken = true
		return nil, errUnavailable
	}
	st.cl.sim.Await(func() bool { return len(st.toCli) > 0 || st.broken || st.targetGone() || st.srvDone })
	if len(st.toCli) == 0 {
		st.broken = true
		return nil, errUnavailable
	}
	r := st.toCli[0]
	st.toCli = st.toCli[1:]
	simrt.Sleep(time.Millisecond)
	return r, nil
}

func (s *cliStream) CloseSend() error {
	s.st.closed = true
	return nil
}

type srvStream struct {
	grpc.ServerStream
	st *stream
}

func (s *srvStream) Context() context.Context { return s.st.ctx }

func (s *srvStream) Recv() (*protoReplicaV1.ReplicaRequest, error) {
	st := s.st
	st.cl.sim.Await(func() bool { return len(st.toSrv) > 0 || st.closed || st.broken })
	if len(st.toSrv) > 0 {
		r := st.toSrv[0]
		st.toSrv = st.toSrv[1:]
		if os.Getenv("VERIF_DEBUG_C08") != "" {
			st.cl.sim.Event("DEBUG stream %d recv idx=%d record: %s", st.id, r.ReplicaIndex, describeMsg(r.Record))
		}
		// recorded when the request reaches the handler: a follower that dies inside the append or before it
		// answers may still have made the message durable
		if st.target.id == followerID {
			st.cl.putStarted[r.ReplicaIndex] = true
			if st.cl.offered[r.ReplicaIndex] == nil {
				st.cl.offered[r.ReplicaIndex] = map[int][]byte{}
			}
			st.cl.offered[r.ReplicaIndex][st.leaderInc] = r.Record
		}
		if st.broken && !st.cl.noFaults {
			// stale delivery: processed after a tape-chosen delay although the client gave up
			st.cl.sim.Fault("stale-delivery")
			simrt.Sleep(time.Duration(1+st.cl.sim.Tape.Choose(50)) * time.Millisecond)
		}
		return r, nil
	}
	if st.closed {
		return nil, io.EOF
	}
	return nil, errUnavailable
}

func (s *srvStream) Send(m *protoReplicaV1.ReplicaResponse) error {
	st := s.st
	st.cl.sim.Event("stream %d replica idx=%d -> follower answers %d %s (client gone: %v)", st.id, m.ReplicaIndex, m.AckIndex, m.Err, st.broken)
	if os.Getenv("VERIF_DEBUG_C08") != "" {
		simrt.QuietBegin()
		defer simrt.QuietEnd()
		if tq := st.cl.logOf(st.target.id); tq != nil {
			for i := int64(0); i <= m.AckIndex; i++ {
				if d, err := tq.Queue().Get(i); err == nil {
					st.cl.sim.Event("DEBUG   node %d pos %d: %s", st.target.id, i, describeMsg(d))
				}
			}
		}
	}
	if m.AckIndex == m.ReplicaIndex && m.Err == "" && st.target.id == followerID {
		st.cl.appendedBy[m.ReplicaIndex] = st.leaderInc
	}
	if st.broken {
		return errUnavailable
	}
	st.toCli = append(st.toCli, m)
	return nil
}

// ---- node lifecycle ---------------------------------------------------------------

func (cl *cluster) startNode(id int) error {
	n := cl.nodes[id]
	if n == nil {
		n = &node{id: id, dir: filepath.Join(cl.c.Dir, fmt.Sprintf("node%d", id))}
		cl.nodes[id] = n
	}
	n.inc = cl.sim.NewIncarnation()
	n.alive = true
	n.stopping = false
	sm := newStateMgr(cl)
	if id == leaderID {
		// (the watchers of the previous incarnation's replicators died with its state manager)
		cl.sm = sm
		cl.sim.SpawnIn(n.inc, "statemgr", sm.run)
	}
	ctx, cancel := context.WithCancel(context.Background())
	n.cancel = cancel
	var startErr error
	started := false
	inc := n.inc
	cl.sim.SpawnIn(inc, fmt.Sprintf("boot%d", id), func() {
		eng := &stubEngine{shard: &stubShard{db: &stubDB{}, fam: &stubFamily{n: n}}}
		cfg := config.WAL{Dir: filepath.Join(n.dir, "wal"), PageSize: ltoml.Size(512), RemoveTaskInterval: ltoml.Duration(time.Hour)}
		n.walMgr = replica.NewWriteAheadLogManager(ctx, cfg, models.NodeID(id), eng, &cliFct{cl: cl}, sm)
		n.handler = storagerpc.NewReplicaHandler(n.walMgr)
		if err := n.walMgr.Recovery(); err != nil {
			startErr = err
		}
		if id == leaderID && startErr == nil {
			// a node that starts on an existing log has what Recovery() built - the storage runtime does nothing else;
			// replicas are (re)built by the next write stream (openWriteStream), as app/storage/rpc's write handler does
			hadLog := fileExists(partDir(n.dir))
			p, err := n.walMgr.GetOrCreateLog(dbName).GetOrCreatePartition(0, familyTime, leaderID)
			if err != nil {
				startErr = err
			} else {
				n.part = p
				if !hadLog {
					startErr = cl.openWriteStream(n)
				}
			}
		}
		started = true
	})
	cl.sim.Await(func() bool { return started })
	return startErr
}

// stopNode: mode 0 = clean stop, 1 = process death.
// openWriteStream: what the storage node's write handler does when a broker opens a write stream for the family.
func (cl *cluster) openWriteStream(l *node) error {
	replicas := []models.NodeID{leaderID, followerID}
	named := cl.third == 1 || cl.third == 2 || (cl.third == 3 && cl.joining)
	if named {
		replicas = append(replicas, thirdID)
	}
	err := l.part.BuildReplicaForLeader(leaderID, replicas)
	if err == nil && named {
		cl.joined = true // from here on the second follower has to get what the leader holds
	}
	return err
}

func (cl *cluster) stopNode(id int, clean bool) {
	n := cl.nodes[id]
	if n == nil || !n.alive {
		return
	}
	if clean {
		// lindb's storage runtime stops its rpc server before the write-ahead log manager: no new call or stream
		// reaches a node that is shutting down, open streams are closed (their handlers may still be inside a request)
		n.stopping = true
		for _, st := range cl.allStreams {
			if st.target == n && st.inc == n.inc {
				st.broken = true
			}
		}
		done := false
		cl.sim.SpawnIn(n.inc, "shutdown", func() {
			// the process is exiting: Close unmaps the log pages under loops that Stop does not
			// join; a fault of such a loop during shutdown is not judged
			cl.sim.QuietInc[n.inc] = true
			n.walMgr.Stop()
			_ = n.walMgr.Close()
			done = true
		})
		// a graceful stop must come to an end whatever state the peers are in (a follower that is down, a stream
		// that is broken): 120 simulated seconds, which only pass while every task is blocked
		deadline := cl.sim.Elapsed() + 120*time.Second
		for !done && cl.sim.Elapsed() < deadline {
			simrt.Sleep(10 * time.Millisecond)
		}
		if !done {
			cl.c.Violate("C08/graceful-stop-hangs", "node %d: the write-ahead log manager did not stop within 120 simulated seconds (live nodes %v): %s", id, cl.live, cl.sim.TaskDump())
		}
	}
	n.alive = false
	if n.cancel != nil {
		n.cancel()
	}
	cl.sim.Kill(n.inc)
	n.part = nil
}

// setLive changes the truth and hands the discovery event to the leader's state manager, which processes it in its
// own task: node map and watchers under the manager's lock, as lindb's storage state manager does.
func (cl *cluster) setLive(id int, live bool) {
	cl.live[id] = live
	sm := cl.sm
	if sm == nil {
		return
	}
	sm.events = append(sm.events, func() {
		sm.live[id] = live
		if live {
			for _, fn := range sm.watchers[id] {
				fn(models.NodeOnline)
			}
		}
	})
}

// notify delivers a node-online event (again).
func (cl *cluster) notify(id int, st models.NodeStateType) {
	cl.setLive(id, true)
}

// ---- observation ---------------------------------------------------------------------

func readPos(path string) (a, b int64, ok bool) {
	buf, err := os.ReadFile(path)
	if err != nil || len(buf) < 16 {
		return 0, 0, false
	}
	return int64(binary.LittleEndian.Uint64(buf[0:])), int64(binary.LittleEndian.Uint64(buf[8:])), true
}

func partDir(nodeDir string) string {
	return filepath.Join(nodeDir, "wal", dbName, "0", commontimeutil.FormatTimestamp(familyTime, commontimeutil.DataTimeFormat4), fmt.Sprint(leaderID))
}

func (cl *cluster) followerLog() queue.FanOutQueue { return cl.logOf(followerID) }

func (cl *cluster) logOf(id int) queue.FanOutQueue {
	f := cl.nodes[id]
	if f == nil || !f.alive || f.walMgr == nil {
		return nil
	}
	if !fileExists(partDir(f.dir)) {
		return nil
	}
	p, err := f.walMgr.GetOrCreateLog(dbName).GetOrCreatePartition(0, familyTime, leaderID)
	if err != nil {
		return nil
	}
	return replica.VerifPartitionLog(p)
}

func fileExists(p string) bool { _, err := os.Stat(p); return err == nil }

func msgBytes(id int64, size int) []byte {
	if size < 12 {
		size = 12
	}
	b := make([]byte, size)
	binary.LittleEndian.PutUint64(b, uint64(id))
	binary.LittleEndian.PutUint32(b[8:], uint32(size))
	for i := 12; i < size; i++ {
		b[i] = byte((int(id)*17 + i*3) % 251)
	}
	return b
}

// describeMsg: what a message of the workload says about itself.
func describeMsg(b []byte) string {
	if len(b) < 12 {
		return fmt.Sprintf("%d bytes %x", len(b), b)
	}
	bad := -1
	id := binary.LittleEndian.Uint64(b)
	for i := 12; i < len(b); i++ {
		if b[i] != byte((int(id)*17+i*3)%251) {
			bad = i
			break
		}
	}
	tail := b
	if len(tail) > 6 {
		tail = tail[len(tail)-6:]
	}
	return fmt.Sprintf("%d bytes: message #%d of declared size %d, first byte off its pattern at %d, last bytes %x", len(b), id, binary.LittleEndian.Uint32(b[8:]), bad, tail)
}

// check: the invariants of the statement that can be evaluated at any quiescent point of the main task.
// staleFromDeadLeader: the bytes the follower holds at position i are the ones a stream of a leader incarnation
// that died before its log tail was lost handed to a handler (which appended them, possibly without having answered yet).
func (cl *cluster) staleFromDeadLeader(i int64, data []byte) (int, bool) {
	if cl.tailLostInc == 0 {
		return 0, false
	}
	if by, ok := cl.appendedBy[i]; ok && by < cl.tailLostInc {
		return by, true
	}
	incs := make([]int, 0, len(cl.offered[i]))
	for inc := range cl.offered[i] {
		incs = append(incs, inc)
	}
	sort.Ints(incs)
	for _, inc := range incs {
		if inc < cl.tailLostInc && bytes.Equal(cl.offered[i][inc], data) {
			return inc, true
		}
	}
	return 0, false
}

func (cl *cluster) check(when string) {
	c := cl.c
	c.Oracle()
	l := cl.nodes[leaderID]
	if cl.third >= 2 {
		// the undisturbed second follower: no holes, and at every position the message the leader stored there
		if tq := cl.logOf(thirdID); tq != nil {
			q := tq.Queue()
			app, ack := q.AppendedSeq(), q.AcknowledgedSeq()
			for i := ack + 1; i <= app; i++ {
				data, err := q.Get(i)
				if err != nil {
					c.Violate("C08/follower-log-hole", "%s: position %d in (%d, %d] of the second follower is not readable: %v", when, i, ack, app, err)
					return
				}
				if w, ok := cl.written[i]; !ok || !bytes.Equal(w, data) {
					c.Violate("C08/bytes-differ", "%s: position %d of the second follower does not hold the message the leader stored at %d (known to the ledger: %v; holds %s, stored %s)", when, i, i, ok, describeMsg(data), describeMsg(w))
					return
				}
			}
		}
	}
	fq := cl.followerLog()
	if fq == nil {
		return
	}
	fQ := fq.Queue()
	fApp, fAck := fQ.AppendedSeq(), fQ.AcknowledgedSeq()
	var lQ queue.Queue
	lApp, lAck := int64(-1), int64(-1)
	if l != nil && l.alive && l.part != nil {
		lQ = replica.VerifPartitionLog(l.part).Queue()
		lApp, lAck = lQ.AppendedSeq(), lQ.AcknowledgedSeq()
	}
	for i := fAck + 1; i <= fApp; i++ {
		data, err := fQ.Get(i)
		if err != nil {
			if os.Getenv("VERIF_DEBUG_LS") != "" {
				out, _ := exec.Command("bash", "-c", "cd "+cl.nodes[followerID].dir+" && find . -type f | xargs ls -la; for f in $(find . -name '0.bat' -path '*meta*'); do echo $f; xxd $f | head -3; done").CombinedOutput()
				cl.sim.Event("DEBUG follower dir:\n%s", out)
			}
			c.Violate("C08/follower-log-hole", "%s: follower position %d in (%d, %d] is not readable: %v", when, i, fAck, fApp, err)
			return
		}
		if lQ != nil && i > lAck && i <= lApp && i < cl.lostFrom {
			ld, err := lQ.Get(i)
			if err == nil && !bytes.Equal(ld, data) {
				if by, ok := cl.staleFromDeadLeader(i, data); ok {
					// delivered by a stream of a leader incarnation that died before its log tail was lost
					c.Violate("C08/bytes-differ/stale-delivery-from-dead-leader-after-tail-loss", "%s: position %d on the follower was appended by the still running handler of a stream opened by leader incarnation %d; the leader restarted from an older image of its log (incarnation %d) and reused the index for a new message", when, i, by, cl.tailLostInc)
					return
				}
				c.Violate("C08/bytes-differ", "%s: position %d holds %d bytes on the follower and %d different bytes on the leader (follower ack=%d appended=%d, leader ack=%d appended=%d)", when, i, len(data), len(ld), fAck, fApp, lAck, lApp)
				return
			}
		}
		if w, ok := cl.written[i]; ok && i < cl.lostFrom && !bytes.Equal(w, data) {
			if by, ok := cl.staleFromDeadLeader(i, data); ok {
				// the same history seen through the ledger (the leader has acknowledged or collected the position)
				c.Violate("C08/bytes-differ/stale-delivery-from-dead-leader-after-tail-loss", "%s: position %d on the follower was appended by the still running handler of a stream opened by leader incarnation %d; the leader restarted from an older image of its log (incarnation %d) and reused the index for a new message", when, i, by, cl.tailLostInc)
				return
			}
			c.Violate("C08/bytes-differ", "%s: follower position %d does not hold the message the leader stored at %d", when, i, i)
			return
		}
	}
}

func (H) Run(c *core.RunCtx) {
	sim := c.Sim
	cl := &cluster{c: c, sim: sim, nodes: map[int]*node{}, live: map[int]bool{leaderID: true, followerID: true},
		third: c.Plan.C("third", 0), appendedBy: map[int64]int{}, offered: map[int64]map[int][]byte{}, faultPM: c.Plan.C("fault_pm", 0), written: map[int64][]byte{}, lostFrom: 1 << 60, prevAck: -1, streamTasks: map[int]bool{}, putStarted: map[int64]bool{}}
	{
		hot := float64(c.Plan.C("hot_pm", 0)) / 1000
		main := sim.CurTask()
		sim.OnYield = func(label string) {
			if cl.flapping && sim.CurTask() != main && !cl.noFaults {
				// while the node flaps every other task may lose the processor at any point (the window between the
				// replicator's look at the live nodes and its decision to suspend is a few instructions)
				if sim.Tape.Chance(0.3) {
					sim.YieldNow()
				}
				return
			}
			if hot == 0 || cl.noFaults || !cl.streamTasks[sim.CurTask()] {
				return
			}
			if (strings.HasPrefix(label, "replica.") || strings.HasPrefix(label, "queue.") || label == "lock") && sim.Tape.Chance(hot) {
				// a slow follower (disk stall, page roll-over) inside the handler: simulated time passes, so
				// the leader can notice a broken stream, shake hands and offer the same index on a new stream
				sim.Fault("follower-stall")
				simrt.Sleep(time.Duration(1+sim.Tape.Choose(12)) * time.Millisecond)
			}
		}
	}
	// the follower's partition gets a log whose append may fail
	replica.NewPartitionFn = func(ctx context.Context, shard tsdb.Shard, family tsdb.DataFamily, nodeID models.NodeID,
		log queue.FanOutQueue, cliFct rpc.ClientStreamFactory, stateMgr storage.StateManager) replica.Partition {
		if int(nodeID) == followerID {
			log = &faultyLog{FanOutQueue: log, cl: cl}
		}
		return replica.NewPartition(ctx, shard, family, nodeID, log, cliFct, stateMgr)
	}
	defer func() { replica.NewPartitionFn = replica.NewPartition }()
	if err := cl.startNode(followerID); err != nil {
		c.Anomaly("start follower: %v", err)
		return
	}
	if cl.third == 1 {
		sim.Fault("third-replica-down")
	}
	if cl.third == 3 {
		sim.Fault("third-replica-joins-later")
	}
	if cl.third >= 2 {
		sim.Fault("third-replica-alive")
		cl.live[thirdID] = true
		if err := cl.startNode(thirdID); err != nil {
			c.Anomaly("start second follower: %v", err)
			return
		}
	}
	if err := cl.startNode(leaderID); err != nil {
		c.Anomaly("start leader: %v", err)
		return
	}
	// (3) the leader never treats a position as acknowledged that the follower has not appended:
	// checked at every scheduling step from the persisted positions (no locks taken).
	fMeta := filepath.Join(partDir(cl.nodes[followerID].dir), "meta", "0.bat")
	lGroup := filepath.Join(partDir(cl.nodes[leaderID].dir), "cg", fmt.Sprint(followerID), "0.bat")
	// hw: the highest position the follower has ever appended in the current history of the
	// leader's log (a later loss of the follower's log does not make earlier acknowledgements wrong).
	hw := int64(-1)
	tMeta := filepath.Join(partDir(filepath.Join(c.Dir, fmt.Sprintf("node%d", thirdID))), "meta", "0.bat")
	tGroup := filepath.Join(partDir(cl.nodes[leaderID].dir), "cg", fmt.Sprint(thirdID), "0.bat")
	lQMeta := filepath.Join(partDir(cl.nodes[leaderID].dir), "meta", "0.bat")
	hw3, prevAck3 := int64(-1), int64(-1)
	dbgPrev := -1
	sim.OnStep = func() {
		if os.Getenv("VERIF_DEBUG_C08") != "" {
			pth := filepath.Join(partDir(filepath.Join(c.Dir, fmt.Sprintf("node%d", thirdID))), "data", "1.bat")
			if b, err := os.ReadFile(pth); err == nil && len(b) > 90 {
				if int(b[80]) != dbgPrev {
					sim.Event("DEBUG byte 80 of node3 data/1.bat: %d -> %d (bytes 76..92: %x) %s", dbgPrev, b[80], b[76:92], sim.TaskDump())
					dbgPrev = int(b[80])
				}
			}
		}
		if cl.third >= 2 {
			// the same rule for the second follower (its log is never lost, the leader's never cut). Positions at or
			// below the leader's queue-wide acknowledged position are released for everybody: the group of a follower
			// that joins starts there without having anything
			if app, _, ok := readPos(tMeta); ok && app > hw3 {
				hw3 = app
			}
			_, lqAck, okq := readPos(lQMeta)
			if !okq {
				lqAck = -1
			}
			if _, ack, ok := readPos(tGroup); ok && ack != prevAck3 {
				if ack > prevAck3 && ack > hw3 && ack > lqAck {
					c.Violate("C08/acked-beyond-follower-append", "leader's acknowledged position for the second follower moved %d -> %d but that follower never appended beyond %d", prevAck3, ack, hw3)
				}
				prevAck3 = ack
			}
		}
		if fApp, _, ok2 := readPos(fMeta); ok2 && fApp > hw {
			hw = fApp
		}
		if cl.resetHW {
			cl.resetHW = false
			hw = -1
			if fApp, _, ok2 := readPos(fMeta); ok2 {
				hw = fApp
			}
		}
		_, ack, ok := readPos(lGroup)
		if !ok || ack <= cl.prevAck {
			if ok && ack < cl.prevAck {
				cl.prevAck = ack // reset by a handshake / restart
			}
			return
		}
		if ack > hw {
			c.Violate("C08/acked-beyond-follower-append", "leader's acknowledged position for the follower moved %d -> %d but the follower never appended beyond %d", cl.prevAck, ack, hw)
		}
		// position by position: the follower's counter can be moved without data (the handshake's Reset), so every
		// newly acknowledged position must be one that reached a handler of the follower at some time (reached, not
		// answered: a follower that dies inside the append or before it answers may have made the message durable;
		// a later loss of the follower's log does not make an acknowledgement wrong)
		for i := cl.prevAck + 1; i <= ack && !c.Violated(); i++ {
			if !cl.putStarted[i] && i >= 0 {
				c.Violate("C08/acked-beyond-follower-append", "leader's acknowledged position for the follower moved %d -> %d, but position %d was never even offered to the follower (its append counter was moved past it)", cl.prevAck, ack, i)
			}
		}
		cl.prevAck = ack
	}
	defer func() { sim.OnStep = nil }()
	var snapDir string
	snapApp := int64(-1)

	for _, op := range c.Plan.Ops {
		if c.Violated() {
			return
		}
		sim.Event("op %s", op.String())
		l, f := cl.nodes[leaderID], cl.nodes[followerID]
		switch op.K {
		case "put":
			if !l.alive || l.part == nil {
				continue
			}
			if err := cl.openWriteStream(l); err != nil {
				c.Anomaly("BuildReplicaForLeader: %v", err)
				return
			}
			for i := int64(0); i < op.A; i++ {
				cl.nextMsg++
				m := msgBytes(cl.nextMsg, int(op.B))
				lq := replica.VerifPartitionLog(l.part).Queue()
				before := lq.AppendedSeq()
				if err := l.part.WriteLog(m); err != nil {
					c.Anomaly("WriteLog: %v", err)
					return
				}
				cl.written[before+1] = m
			}
		case "join":
			if cl.third != 3 || !l.alive || l.part == nil {
				continue
			}
			cl.joining = true
			sim.Fault("follower-joins")
			if op.A == 0 {
				if err := cl.openWriteStream(l); err != nil {
					c.Anomaly("BuildReplicaForLeader: %v", err)
					return
				}
				break
			}
			// the leader dies while it builds the replica of the newcomer: at the A-th yield point inside the queue /
			// page packages (creation of the consumer group and its meta page), or not at all when there are fewer
			prev := sim.OnYield
			n, killed, done := int64(0), false, false
			inc := l.inc
			sim.OnYield = func(label string) {
				if killed || done || sim.CurInc() != inc || sim.CurTaskName() != "join" {
					if prev != nil {
						prev(label)
					}
					return
				}
				if strings.HasPrefix(label, "queue.") || strings.HasPrefix(label, "page.") {
					n++
					if n == op.A {
						killed = true
						sim.Fault("leader-dies-inside-join")
						sim.Event("leader dies at %s", label)
						sim.Kill(inc)
					}
				}
			}
			sim.SpawnIn(inc, "join", func() {
				_ = cl.openWriteStream(l)
				done = true
			})
			sim.Await(func() bool { return killed || done })
			sim.OnYield = prev
			if killed {
				l.alive = false
				if l.cancel != nil {
					l.cancel()
				}
				l.part = nil
				simrt.Sleep(5 * time.Millisecond)
				if err := cl.startNode(leaderID); err != nil {
					c.Violate("C08/leader-restart-failed", "leader could not recover its log: %v", err)
					return
				}
			}
		case "expire_f":
			if !f.alive || !l.alive {
				continue
			}
			// everything the follower has is flushed by its storage (the flush acknowledges the log through the callback
			// its local replicator registered), then the family leaves the writable range
			cl.awaitCaughtUp(true)
			fq := cl.followerLog()
			if fq == nil || f.flushAck == nil {
				continue
			}
			g, err := fq.GetOrCreateConsumerGroup(fmt.Sprint(followerID))
			if err != nil {
				continue
			}
			t0 := sim.Elapsed()
			sim.Await(func() bool { return g.ConsumedSeq() >= fq.Queue().AppendedSeq() || sim.Elapsed()-t0 > 10*time.Second })
			sim.Fault("follower-log-expires-in-place")
			cl.logLost = true
			f.flushAck(g.ConsumedSeq())
			f.famExpired = true
			simrt.Sleep(2*time.Hour + 20*time.Minute) // the log manager's housekeeping runs every hour
			if !fileExists(partDir(f.dir)) {
				sim.Probe("follower-log-destroyed-in-place")
			}
		case "wait":
			simrt.Sleep(time.Duration(op.A) * time.Millisecond)
		case "restart_f":
			sim.Fault(fmt.Sprintf("follower-restart-%d", op.A))
			cl.stopNode(followerID, op.A == 0)
			if op.A == 2 {
				sim.Fault("follower-log-lost")
				cl.logLost = true
				_ = os.RemoveAll(filepath.Join(f.dir, "wal"))
			}
			simrt.Sleep(5 * time.Millisecond)
			if err := cl.startNode(followerID); err != nil {
				c.Violate("C08/follower-restart-failed", "follower could not recover its log: %v", err)
				return
			}
		case "offline":
			sim.Fault("follower-offline")
			cl.setLive(followerID, false)
			simrt.Sleep(time.Duration(op.A) * time.Millisecond)
			sim.Fault("follower-online")
			cl.setLive(followerID, true)
		case "flap":
			sim.Fault("follower-flap")
			cl.flapping = true
			cl.setLive(followerID, false)
			for i := int64(0); i < op.A; i++ {
				sim.YieldNow()
			}
			cl.setLive(followerID, true)
			for i := int64(0); i < 3; i++ {
				sim.YieldNow() // the manager processes the two events while every task may still lose the processor anywhere
			}
			cl.flapping = false
		case "online_dup":
			sim.Fault("duplicate-online-notification")
			cl.notify(followerID, models.NodeOnline)
		case "gc":
			if l.alive && l.part != nil {
				sim.Fault("leader-gc")
				l.part.IsExpire() // Sync + GC of the leader's log
			}
		case "snap_l":
			if l.alive && l.part != nil {
				// an older image of the leader's log, restored later = a leader that lost its log tail
				snapDir = filepath.Join(c.Dir, "leader-image")
				_ = os.RemoveAll(snapDir)
				if out, err := exec.Command("cp", "-a", "--sparse=always", filepath.Join(l.dir, "wal"), snapDir).CombinedOutput(); err != nil {
					c.Anomaly("cp: %v %s", err, out)
					return
				}
				snapApp = replica.VerifPartitionLog(l.part).Queue().AppendedSeq()
			}
		case "restart_l":
			tailLost := false
			sim.Fault(fmt.Sprintf("leader-restart-%d", op.A))
			cl.stopNode(leaderID, op.A == 0)
			if op.A == 2 && snapDir != "" {
				sim.Fault("leader-tail-lost")
				cl.logLost = true
				_ = os.RemoveAll(filepath.Join(l.dir, "wal"))
				if out, err := exec.Command("cp", "-a", "--sparse=always", snapDir, filepath.Join(l.dir, "wal")).CombinedOutput(); err != nil {
					c.Anomaly("cp: %v %s", err, out)
					return
				}
				// positions above the image's appended sequence were destroyed by definition
				if snapApp+1 < cl.lostFrom {
					cl.lostFrom = snapApp + 1
				}
				for s := range cl.written {
					if s > snapApp {
						delete(cl.written, s)
					}
				}
				cl.resetHW = true
				cl.prevAck = -1
				if _, ack, ok := readPos(lGroup); ok {
					cl.prevAck = ack // the acknowledged position stored in the restored image
				}
				tailLost = true
			}
			simrt.Sleep(5 * time.Millisecond)
			if err := cl.startNode(leaderID); err != nil {
				c.Violate("C08/leader-restart-failed", "leader could not recover its log: %v", err)
				return
			}
			if tailLost {
				cl.tailLostInc = cl.nodes[leaderID].inc
			}
			if op.A == 2 && snapDir != "" {
				// let the handshake re-align the indexes before new appends (a lost tail is re-numbered by it)
				cl.awaitCaughtUp(true)
				cl.lostFrom = 1 << 60
			}
		}
		cl.check("after " + op.String())
	}
	if c.Violated() {
		return
	}
	// bounded liveness: faults stop, follower online -> the follower catches up without operator action
	cl.noFaults = true
	cl.setLive(followerID, true)
	if !cl.nodes[followerID].alive {
		_ = cl.startNode(followerID)
	}
	if !cl.nodes[leaderID].alive {
		if err := cl.startNode(leaderID); err != nil {
			c.Violate("C08/leader-restart-failed", "leader could not recover its log: %v", err)
			return
		}
	}
	cl.notify(followerID, models.NodeOnline)
	// let whatever is pending settle (not judged: a follower that lost its log after acknowledging
	// everything is only re-based by the next handshake, which needs something to send)
	if !cl.awaitCaughtUp(true) && !cl.logLost {
		// nothing was destroyed in this history (no follower log lost, no leader tail lost): what the follower lacks
		// and the leader still holds must arrive without another write - a leader that restarted has nothing but
		// what its recovery built
		sim.Probe("catch-up-without-a-write-judged")
		if !cl.awaitCaughtUp(false) {
			return
		}
	}
	cl.check("after settling")
	if c.Violated() {
		return
	}
	// an append after the last fault must reach the follower, at the leader's position
	l := cl.nodes[leaderID]
	cl.joining = true
	if err := cl.openWriteStream(l); err != nil {
		c.Anomaly("BuildReplicaForLeader: %v", err)
		return
	}
	for round := 0; round < 2; round++ {
		cl.nextMsg++
		m := msgBytes(cl.nextMsg, 40)
		before := replica.VerifPartitionLog(l.part).Queue().AppendedSeq()
		if err := l.part.WriteLog(m); err != nil {
			c.Anomaly("WriteLog: %v", err)
			return
		}
		cl.written[before+1] = m
		if !cl.awaitCaughtUp(false) {
			return
		}
		cl.check("final")
		if c.Violated() {
			return
		}
	}
}

// awaitCaughtUp waits (simulated time; it only advances while every task is blocked,
// so no scheduler starvation is possible) until the follower's appended position
// equals the leader's.
func (cl *cluster) awaitCaughtUp(quiet bool) bool {
	c := cl.c
	l := cl.nodes[leaderID]
	lMeta := filepath.Join(partDir(l.dir), "meta", "0.bat")
	fMeta := filepath.Join(partDir(cl.nodes[followerID].dir), "meta", "0.bat")
	limit := 120 * time.Second
	if quiet {
		limit = 5 * time.Second
	}
	deadline := cl.sim.Elapsed() + limit
	var la, fa int64
	ta3 := int64(-2)
	for cl.sim.Elapsed() < deadline {
		var ok1, ok2 bool
		la, _, ok1 = readPos(lMeta)
		fa, _, ok2 = readPos(fMeta)
		third := true
		if (cl.third == 2 || cl.third == 3) && cl.joined {
			ta, _, ok3 := readPos(filepath.Join(partDir(cl.nodes[thirdID].dir), "meta", "0.bat"))
			if !ok3 {
				ta = -1
			}
			third = ok1 && ta == la
			ta3 = ta
		}
		if ok1 && ok2 && la == fa && third {
			return true
		}
		if !ok1 {
			la = -1
		}
		if !ok2 {
			fa = -1
		}
		if la == -1 && fa == -1 {
			return true
		}
		simrt.Sleep(20 * time.Millisecond)
	}
	if quiet {
		return false
	}
	rs := replica.VerifReplicators(l.part)
	state := "?"
	if r, ok := rs[followerID]; ok {
		state = fmt.Sprintf("replica=%d ack=%d append=%d state=%v live=%v tasks=%s", r.ReplicaIndex(), r.AckIndex(), r.AppendIndex(), r.State(), cl.live, cl.sim.TaskDump())
	}
	if fa == la && cl.third >= 2 {
		if r, ok := rs[thirdID]; ok {
			state = fmt.Sprintf("replica=%d ack=%d append=%d state=%v", r.ReplicaIndex(), r.AckIndex(), r.AppendIndex(), r.State())
		}
		c.Violate("C08/no-catch-up", "120 simulated seconds after the last fault the second follower has appended up to %d, the leader up to %d (leader's replicator for it: %s)", ta3, la, state)
		return false
	}
	c.Violate("C08/no-catch-up", "120 simulated seconds after the last fault the follower has appended up to %d, the leader up to %d (leader's replicator: %s)", fa, la, state)
	return false
}

var _ = constants.RPCMetaReplicaState
