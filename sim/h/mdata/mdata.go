// Package mdata simulates metric data families: C03 (compaction never changes
// observable metric data) and C04 (rollup writes the right aggregate into the
// right coarse slot, once).  Real kv store + real metricsdata flusher / reader /
// merger / series merger + aggregation down sampling.
package mdata

import (
	"fmt"
	"math"
	"math/rand"
	"os"
	"path/filepath"
	"sort"
	"time"

	"github.com/lindb/roaring"

	"github.com/lindb/lindb/flow"
	"github.com/lindb/lindb/kv"
	"github.com/lindb/lindb/kv/version"
	"github.com/lindb/lindb/pkg/bit"
	"github.com/lindb/lindb/pkg/encoding"
	"github.com/lindb/lindb/pkg/timeutil"
	"github.com/lindb/lindb/series/field"
	"github.com/lindb/lindb/tsdb/tblstore/metricsdata"

	"verifsim/core"
	"verifsim/simrt"
)

type H struct{}

func init() { core.Register(H{}) }

func (H) Name() string { return "mdata" }

func (H) End(c *core.RunCtx, end string) (string, string) {
	return "", "scheduler ended before the harness finished"
}

func (H) Gen(prop string, rng *rand.Rand, tier string) *core.Plan {
	if prop == "C04" {
		return genC04(rng, tier)
	}
	p := &core.Plan{Harness: "mdata", Prop: "C03", Cfg: map[string]int{}}
	p.Cfg["preempt_pm"] = []int{0, 5, 30}[rng.Intn(3)]
	p.Cfg["switch_pm"] = []int{50, 300}[rng.Intn(2)]
	p.Cfg["threshold"] = []int{0, 2, 3}[rng.Intn(3)]
	p.Cfg["maxfile"] = []int{0, 0, 200, 1500}[rng.Intn(4)]
	p.Cfg["metrics"] = 1 + rng.Intn(3)
	p.Cfg["reader"] = rng.Intn(2)
	p.Cfg["fresh"] = rng.Intn(2) // readers that take their snapshot while the compaction runs
	n := 3 + rng.Intn(8)
	for i := 0; i < n; i++ {
		switch r := rng.Intn(100); {
		case r < 60:
			p.Ops = append(p.Ops, core.Op{K: "flush", A: int64(1 + rng.Intn(3)), B: int64(1 + rng.Intn(6)), C: int64(rng.Intn(4)), S: fmt.Sprint(rng.Intn(1 << 30))})
		case r < 85:
			p.Ops = append(p.Ops, core.Op{K: "compact"})
		default:
			p.Ops = append(p.Ops, core.Op{K: "tick"})
		}
	}
	p.Ops = append(p.Ops, core.Op{K: "compact"}, core.Op{K: "compact"})
	p.Cfg["maporder"] = rng.Intn(2) // tape-chosen iteration order of Go maps in the code under test
	// slots per family: 40 keeps blocks small; 400 / 720 are families of a store whose interval gives more than
	// 360 slots per family (5 s per hour, 1 h per month): the merger's scratch buffers have another path there
	p.Cfg["max_slot"] = []int{40, 40, 40, 400, 720}[rng.Intn(5)]
	return p
}

func (H) Run(c *core.RunCtx) {
	if c.Plan.Prop == "C04" {
		runC04(c)
		return
	}
	runC03(c)
}

// ---- data model -----------------------------------------------------------------

var seriesUniverse = []uint32{0, 1, 2, 7, 65535, 65536, 65537, 70000, 131072, 131073, 200000}

type fieldDef struct {
	ID   field.ID
	Type field.Type
	Name string
}

// every metric has the same five fields (ids 0..4); a file carries a subset
var fieldDefs = []fieldDef{
	{0, field.SumField, "sum"},
	{1, field.MinField, "min"},
	{2, field.MaxField, "max"},
	{3, field.LastField, "last"},
	{4, field.FirstField, "first"},
	{5, field.HistogramField, "__bucket_1"},
}

type cellKey struct {
	metric uint32
	series uint32
	field  field.ID
	slot   int // source interval slot (C03) / absolute target slot id (C04)
}

// model: contributed values per cell, in flush order
type model map[cellKey][]float64

type fileContent struct {
	metrics map[uint32]*metricContent
}

type metricContent struct {
	fields []fieldDef
	start  uint16
	end    uint16
	series []uint32
	values map[uint32]map[field.ID]map[uint16]float64 // series -> field -> slot -> value
}

// genFile derives a file's content from the op (deterministic in the op only).
func genFile(op core.Op, nMetrics int, maxSlot int) *fileContent {
	rng := rand.New(rand.NewSource(atoi(op.S)*977 + op.A*31 + op.B))
	fc := &fileContent{metrics: map[uint32]*metricContent{}}
	nm := int(op.A)
	if nm > nMetrics {
		nm = nMetrics
	}
	perm := rng.Perm(nMetrics)[:nm]
	sort.Ints(perm)
	for _, mi := range perm {
		mc := &metricContent{values: map[uint32]map[field.ID]map[uint16]float64{}}
		// field subset, sorted by id
		for _, fd := range fieldDefs {
			if rng.Intn(3) > 0 {
				mc.fields = append(mc.fields, fd)
			}
		}
		if len(mc.fields) == 0 {
			mc.fields = append(mc.fields, fieldDefs[rng.Intn(len(fieldDefs))])
		}
		switch op.C {
		case 0: // narrow
			s := rng.Intn(maxSlot)
			mc.start, mc.end = uint16(s), uint16(min(maxSlot-1, s+rng.Intn(4)))
		case 1: // wide
			mc.start, mc.end = 0, uint16(maxSlot-1)
		default:
			a, b := rng.Intn(maxSlot), rng.Intn(maxSlot)
			if a > b {
				a, b = b, a
			}
			mc.start, mc.end = uint16(a), uint16(b)
		}
		ns := int(op.B)
		sp := rng.Perm(len(seriesUniverse))
		if ns > len(sp) {
			ns = len(sp)
		}
		for _, si := range sp[:ns] {
			mc.series = append(mc.series, seriesUniverse[si])
		}
		sort.Slice(mc.series, func(i, j int) bool { return mc.series[i] < mc.series[j] })
		for _, sid := range mc.series {
			mc.values[sid] = map[field.ID]map[uint16]float64{}
			for _, fd := range mc.fields {
				if rng.Intn(5) == 0 {
					continue // this series has no data for the field
				}
				vs := map[uint16]float64{}
				for s := mc.start; s <= mc.end; s++ {
					if rng.Intn(3) > 0 {
						vs[s] = float64(1 + rng.Intn(50))
					}
				}
				if len(vs) > 0 {
					mc.values[sid][fd.ID] = vs
				}
			}
		}
		fc.metrics[uint32(10+mi)] = mc
	}
	return fc
}

func atoi(s string) int64 {
	var n int64
	for _, ch := range s {
		if ch >= '0' && ch <= '9' {
			n = n*10 + int64(ch-'0')
		}
	}
	return n
}

// writeFile writes the content through the real metricsdata flusher into the family.
func writeFile(f kv.Family, fc *fileContent) error {
	kvFlusher := f.NewFlusher()
	defer kvFlusher.Release()
	fl, err := metricsdata.NewFlusher(kvFlusher)
	if err != nil {
		return err
	}
	mids := make([]int, 0, len(fc.metrics))
	for m := range fc.metrics {
		mids = append(mids, int(m))
	}
	sort.Ints(mids)
	for _, m := range mids {
		mc := fc.metrics[uint32(m)]
		metas := field.Metas{}
		for _, fd := range mc.fields {
			metas = append(metas, field.Meta{ID: fd.ID, Type: fd.Type, Name: field.Name(fd.Name)})
		}
		fl.PrepareMetric(uint32(m), metas)
		for _, sid := range mc.series {
			for idx, fd := range mc.fields {
				vs := mc.values[sid][fd.ID]
				if len(vs) == 0 {
					if err := fl.FlushField(nil); err != nil {
						return err
					}
					continue
				}
				enc := fl.GetEncoder(idx)
				enc.RestWithStartTime(mc.start)
				for s := mc.start; s <= mc.end; s++ {
					if v, ok := vs[s]; ok {
						enc.AppendTime(bit.One)
						enc.AppendValue(math.Float64bits(v))
					} else {
						enc.AppendTime(bit.Zero)
					}
				}
				data, err := enc.BytesWithoutTime()
				if err != nil {
					return err
				}
				if err := fl.FlushField(data); err != nil {
					return err
				}
			}
			if err := fl.FlushSeries(sid); err != nil {
				return err
			}
		}
		if err := fl.CommitMetric(timeutil.SlotRange{Start: mc.start, End: mc.end}); err != nil {
			return err
		}
	}
	return fl.Close()
}

// observed content of one version: per cell the list of values found in the files (one per file)
type observed map[cellKey][]float64

// readFamily decodes every metric block of the snapshot with the real reader.
func readFamily(snap version.Snapshot, metrics []uint32, slotOf func(metric uint32, slot uint16) int) (observed, error) {
	obs := observed{}
	allFields := field.Metas{}
	for _, fd := range fieldDefs {
		allFields = append(allFields, field.Meta{ID: fd.ID, Type: fd.Type, Name: field.Name(fd.Name)})
	}
	for _, m := range metrics {
		var blocks [][]byte
		if err := snap.Load(m, func(v []byte) error {
			blocks = append(blocks, v)
			return nil
		}); err != nil {
			return nil, err
		}
		for bi, blk := range blocks {
			r, err := metricsdata.NewReader(fmt.Sprintf("block%d", bi), blk)
			if err != nil {
				return nil, fmt.Errorf("metric %d block %d: %v", m, bi, err)
			}
			fields := r.GetFields()
			sids := r.GetSeriesIDs()
			for _, hk := range sids.GetHighKeys() {
				cont := sids.GetContainer(hk)
				ctx := &flow.DataLoadContext{
					ShardExecuteCtx:       &flow.ShardExecuteContext{StorageExecuteCtx: &flow.StorageExecuteContext{Fields: fields}},
					SeriesIDHighKey:       hk,
					LowSeriesIDsContainer: cont,
					Decoder:               encoding.GetTSDDecoder(),
				}
				ctx.Grouping()
				ctx.DownSampling = func(slotRange timeutil.SlotRange, seriesIdx uint16, fieldIdx int, getter encoding.TSDValueGetter) {
					sid := uint32(hk)<<16 | uint32(ctx.LowSeriesIDs[seriesIdx])
					for s := slotRange.Start; ; s++ {
						if v, ok := getter.GetValue(s); ok {
							k := cellKey{m, sid, fields[fieldIdx].ID, slotOf(m, s)}
							obs[k] = append(obs[k], v)
						}
						if s == slotRange.End {
							break
						}
					}
				}
				loader := r.Load(ctx)
				if loader != nil {
					loader.Load(ctx)
				}
				encoding.ReleaseTSDDecoder(ctx.Decoder)
				// every series of the container must be listed
				_ = roaring.New
			}
		}
	}
	return obs, nil
}

func fieldType(id field.ID) field.Type {
	for _, fd := range fieldDefs {
		if fd.ID == id {
			return fd.Type
		}
	}
	return field.Unknown
}

// compare checks the observed content against the model: exact aggregate for sum/min/max/histogram,
// membership for first/last, no cell appears or disappears.
func compare(c *core.RunCtx, sigPrefix, when string, mdl model, obs observed, strict ...func(k cellKey, got []float64) bool) bool {
	c.Oracle()
	keys := make([]cellKey, 0, len(mdl))
	for k := range mdl {
		keys = append(keys, k)
	}
	sort.Slice(keys, func(i, j int) bool { return less(keys[i], keys[j]) })
	for _, k := range keys {
		want := mdl[k]
		got, ok := obs[k]
		if !ok {
			c.Violate(sigPrefix+"/value-disappeared", "%s: metric %d series %d field %d slot %d lost (contributed %v)", when, k.metric, k.series, k.field, k.slot, want)
			return false
		}
		switch fieldType(k.field).AggType() {
		case field.Sum:
			if sum(got) != sum(want) {
				c.Violate(sigPrefix+"/sum-changed", "%s: metric %d series %d field %d slot %d: files hold %v (sum %v), contributed %v (sum %v)", when, k.metric, k.series, k.field, k.slot, got, sum(got), want, sum(want))
				return false
			}
		case field.Min:
			if minOf(got) != minOf(want) {
				c.Violate(sigPrefix+"/min-changed", "%s: metric %d series %d field %d slot %d: files hold %v, contributed %v", when, k.metric, k.series, k.field, k.slot, got, want)
				return false
			}
		case field.Max:
			if maxOf(got) != maxOf(want) {
				c.Violate(sigPrefix+"/max-changed", "%s: metric %d series %d field %d slot %d: files hold %v, contributed %v", when, k.metric, k.series, k.field, k.slot, got, want)
				return false
			}
		default: // first / last: one of the contributed values
			for _, g := range got {
				found := false
				for _, w := range want {
					if g == w {
						found = true
					}
				}
				if !found {
					c.Violate(sigPrefix+"/first-last-not-contributed", "%s: metric %d series %d field %d slot %d: files hold %v, contributed %v", when, k.metric, k.series, k.field, k.slot, got, want)
					return false
				}
			}
			for _, f := range strict {
				if !f(k, got) {
					return false
				}
			}
		}
	}
	okeys := make([]cellKey, 0, len(obs))
	for k := range obs {
		okeys = append(okeys, k)
	}
	sort.Slice(okeys, func(i, j int) bool { return less(okeys[i], okeys[j]) })
	for _, k := range okeys {
		if _, ok := mdl[k]; !ok {
			c.Violate(sigPrefix+"/value-appeared", "%s: metric %d series %d field %d slot %d holds %v but nothing was ever written there", when, k.metric, k.series, k.field, k.slot, obs[k])
			return false
		}
	}
	return true
}

func less(a, b cellKey) bool {
	if a.metric != b.metric {
		return a.metric < b.metric
	}
	if a.series != b.series {
		return a.series < b.series
	}
	if a.field != b.field {
		return a.field < b.field
	}
	return a.slot < b.slot
}

func sum(v []float64) (s float64) {
	for _, x := range v {
		s += x
	}
	return
}
func minOf(v []float64) float64 {
	m := math.Inf(1)
	for _, x := range v {
		m = math.Min(m, x)
	}
	return m
}
func maxOf(v []float64) float64 {
	m := math.Inf(-1)
	for _, x := range v {
		m = math.Max(m, x)
	}
	return m
}

func (mdl model) addFile(fc *fileContent, slotOf func(metric uint32, slot uint16) int, rec ...func(k cellKey, v float64, srcSlot uint16)) {
	mids := make([]int, 0, len(fc.metrics))
	for m := range fc.metrics {
		mids = append(mids, int(m))
	}
	sort.Ints(mids)
	for _, m := range mids {
		mc := fc.metrics[uint32(m)]
		for _, sid := range mc.series {
			fids := make([]int, 0, len(mc.values[sid]))
			for fid := range mc.values[sid] {
				fids = append(fids, int(fid))
			}
			sort.Ints(fids)
			for _, fid := range fids {
				vs := mc.values[sid][field.ID(fid)]
				slots := make([]int, 0, len(vs))
				for s := range vs {
					slots = append(slots, int(s))
				}
				sort.Ints(slots)
				for _, s := range slots {
					v := vs[uint16(s)]
					k := cellKey{uint32(m), sid, field.ID(fid), slotOf(uint32(m), uint16(s))}
					mdl[k] = append(mdl[k], v)
					for _, f := range rec {
						f(k, v, uint16(s))
					}
				}
			}
		}
	}
}

// ---- C03 -------------------------------------------------------------------------

func awaitIdle(sim *simrt.Sim, fams ...kv.Family) {
	sim.Await(func() bool {
		for _, f := range fams {
			if kv.VerifFamilyBusy(f) {
				return false
			}
		}
		return true
	})
}

func runC03(c *core.RunCtx) {
	sim := c.Sim
	mgr := kv.VerifNewStoreManager()
	kv.InitStoreManager(mgr)
	name := filepath.Join(c.Dir, "db", "day", "20000101")
	st, err := mgr.CreateStore(name, kv.DefaultStoreOption())
	if err != nil {
		c.Anomaly("CreateStore: %v", err)
		return
	}
	fam, err := st.CreateFamily("1", kv.FamilyOption{Merger: string(metricsdata.MetricDataMerger), CompactThreshold: c.Plan.C("threshold", 0), MaxFileSize: uint32(c.Plan.C("maxfile", 0))})
	if err != nil {
		c.Anomaly("CreateFamily: %v", err)
		return
	}
	nMetrics := c.Plan.C("metrics", 2)
	var metrics []uint32
	for i := 0; i < nMetrics; i++ {
		metrics = append(metrics, uint32(10+i))
	}
	identity := func(_ uint32, s uint16) int { return int(s) }
	mdl := model{}
	check := func(when string) bool {
		snap := fam.GetSnapshot()
		defer snap.Close()
		obs, err := readFamily(snap, metrics, identity)
		if err != nil {
			c.Violate("C03/unreadable", "%s: %v", when, err)
			return false
		}
		files := snap.GetCurrent().GetAllFiles()
		sim.Probe(fmt.Sprintf("files-%d", len(files)))
		return compare(c, "C03", when, mdl, obs)
	}
	for i, op := range c.Plan.Ops {
		if c.Violated() {
			return
		}
		sim.Event("op %d %s", i, op.String())
		switch op.K {
		case "flush":
			fc := genFile(op, nMetrics, c.Plan.C("max_slot", 40))
			if err := writeFile(fam, fc); err != nil {
				c.Anomaly("write file: %v", err)
				return
			}
			mdl.addFile(fc, identity)
			if os.Getenv("VERIF_TRACE") != "" {
				for m, mc := range fc.metrics {
					var fs []int
					for _, fd := range mc.fields {
						fs = append(fs, int(fd.ID))
					}
					sim.Event("  file: metric %d fields %v slots [%d,%d] series %v", m, fs, mc.start, mc.end, mc.series)
					for _, sid := range mc.series {
						for _, fd := range mc.fields {
							sim.Event("    series %d field %d: %v", sid, fd.ID, mc.values[sid][fd.ID])
						}
					}
				}
			}
		case "compact", "tick":
			var readerDone = true
			if c.Plan.C("reader", 0) == 1 {
				// a reader holds a snapshot across the compaction and re-reads it
				readerDone = false
				want := model{}
				for k, v := range mdl {
					want[k] = v
				}
				sim.Spawn("reader", func() {
					snap := fam.GetSnapshot()
					defer snap.Close()
					for j := 0; j < 2 && !c.Violated(); j++ {
						obs, err := readFamily(snap, metrics, identity)
						if err != nil {
							c.Violate("C03/unreadable", "held snapshot: %v", err)
							break
						}
						compare(c, "C03", "held snapshot during compaction", want, obs)
						simrt.Sleep(time.Millisecond)
					}
					readerDone = true
				})
			}
			freshDone, compacting := true, true
			if c.Plan.C("fresh", 0) == 1 {
				// readers that START while the compaction runs: whatever version they meet (before the commit,
				// after it, anything a commit in several steps would publish in between) shows the same data
				freshDone = false
				want := model{}
				for k, v := range mdl {
					want[k] = v
				}
				sim.Spawn("fresh-reader", func() {
					defer func() { freshDone = true }()
					for j := 0; j < 400 && !c.Violated() && (compacting || j < 2); j++ {
						snap := fam.GetSnapshot()
						obs, err := readFamily(snap, metrics, identity)
						snap.Close()
						if err != nil {
							c.Violate("C03/unreadable", "snapshot taken during compaction: %v", err)
							return
						}
						if !compare(c, "C03", "snapshot taken while the compaction runs", want, obs) {
							return
						}
						sim.Probe("fresh-snapshot-read-during-compaction")
						for y := sim.Tape.Choose(4); y > 0; y-- {
							sim.YieldNow()
						}
					}
				})
			}
			s0 := fam.GetSnapshot()
			before := len(s0.GetCurrent().GetAllFiles())
			s0.Close()
			if op.K == "compact" {
				fam.Compact()
			} else {
				kv.VerifStoreCompact(st)
			}
			awaitIdle(sim, fam)
			compacting = false
			sim.Await(func() bool { return readerDone && freshDone })
			if len(sim.PanicTasks) > 0 {
				c.Violate("C03/compaction-crashed", "the compaction goroutine panicked: %s", firstLine(sim.PanicTasks[0]))
				return
			}
			snap := fam.GetSnapshot()
			after := len(snap.GetCurrent().GetAllFiles())
			snap.Close()
			if after != before {
				sim.Fault("compaction-changed-files")
			}
		}
		if !check("after " + op.String()) {
			return
		}
	}
	_ = mgr.CloseStore(name)
}

func firstLine(s string) string {
	for i, ch := range s {
		if ch == '\n' {
			return s[:i]
		}
	}
	return s
}
