package mdata

import (
	"fmt"
	"github.com/lindb/lindb/series/field"
	"math/rand"
	"path/filepath"
	"sort"
	"strings"
	"time"

	"github.com/lindb/lindb/kv"
	"github.com/lindb/lindb/kv/table"
	"github.com/lindb/lindb/kv/version"
	"github.com/lindb/lindb/pkg/timeutil"
	"github.com/lindb/lindb/tsdb/tblstore/metricsdata"

	"verifsim/core"
	"verifsim/simrt"
)

// ---- C04: rollup ------------------------------------------------------------------

const (
	srcInterval = int64(10 * 1000) // 10s, day calculator: 360 slots per hour family
	hourMs      = int64(3600 * 1000)
	dayMs       = 24 * hourMs
	jan1        = int64(946684800000) // 2000-01-01T00:00:00Z
)

// zoneDays: lindb computes segments and families in the node's local time (core.Zones, cfg "tz"). In the zones with daylight
// saving the plans use days AFTER the switch of the month (cfg "month"), where "day d of the month" is no longer "start
// of the month + (d-1) * 24h" (the day of the switch itself, which has 23 hours, is not used: C04 says nothing about days
// that are not 24 hours long). Per zone the month of year 2000 the plans use, its three primary source days and the second day that goes with each.
var zoneDays = []struct {
	month int
	days  []int
	day2  map[int]int
}{
	{1, []int{1, 3, 31}, map[int]int{1: 2, 3: 17, 31: 30}},
	{1, []int{1, 3, 31}, map[int]int{1: 2, 3: 17, 31: 30}},
	{1, []int{1, 3, 31}, map[int]int{1: 2, 3: 17, 31: 30}},
	{3, []int{27, 29, 31}, map[int]int{27: 28, 29: 30, 31: 30}}, // Europe: switch on 2000-03-26
	{4, []int{3, 17, 30}, map[int]int{3: 4, 17: 18, 30: 29}},    // US / Canada: switch on 2000-04-02
	{4, []int{3, 17, 30}, map[int]int{3: 4, 17: 18, 30: 29}},
}

type target struct {
	interval int64
	store    string // store name (path)
	family   string // family name inside the target store
	famStart int64  // start time of that family
	day      int    // > 0: fed by that source day only (5m: one family per day); 0: by every source day
}

func (t target) key() string { return fmt.Sprintf("%d/%s", t.interval, t.family) }

// accepts: the target family holds the data of that source day.
func (t target) accepts(day int) bool { return t.day == 0 || t.day == day }

func genC04(rng *rand.Rand, tier string) *core.Plan {
	p := &core.Plan{Harness: "mdata", Prop: "C04", Cfg: map[string]int{}}
	p.Cfg["preempt_pm"] = []int{0, 5, 30, 100}[rng.Intn(4)]
	p.Cfg["switch_pm"] = []int{50, 300, 600}[rng.Intn(3)]
	p.Cfg["threshold"] = []int{0, 2}[rng.Intn(2)]
	p.Cfg["metrics"] = 1 + rng.Intn(2)
	tz := []int{0, 0, 0, 1, 2, 3, 4, 5}[rng.Intn(8)]
	zd := zoneDays[tz]
	if tz != 0 {
		p.Cfg["tz"] = tz
		p.Cfg["month"] = zd.month
	}
	p.Cfg["day"] = zd.days[rng.Intn(3)]                 // source segment: 2000-<month>-<day>
	p.Cfg["targets"] = []int{1, 1, 2, 3}[rng.Intn(4)]   // bit0: 5m (month), bit1: 1h (year)
	p.Cfg["crash_pm"] = []int{0, 0, 4, 15}[rng.Intn(4)] // process death per file-system operation during rollup ops
	// a second source segment (another day of the month) in a third of the plans: two day stores feed the same month
	// store (one 5m family per day) and the same family of the year store (1h); flush operations with t >= 3 go to it,
	// and every rollup trigger goes to both stores (half of the time from two tasks at once)
	if rng.Intn(3) == 0 {
		p.Cfg["day2"] = zd.day2[p.Cfg["day"]]
		p.Cfg["par_trigger"] = rng.Intn(2)
	}
	n := 3 + rng.Intn(9)
	for i := 0; i < n; i++ {
		fam := rng.Intn(3) // source family (hour) index
		if p.Cfg["day2"] != 0 && rng.Intn(2) == 0 {
			fam += 3 // ... of the second source day
		}
		switch r := rng.Intn(100); {
		case r < 45:
			p.Ops = append(p.Ops, core.Op{K: "flush", T: fam, A: int64(1 + rng.Intn(2)), B: int64(1 + rng.Intn(4)), C: int64(rng.Intn(4)), S: fmt.Sprint(rng.Intn(1 << 30))})
		case r < 70:
			p.Ops = append(p.Ops, core.Op{K: "rollup", B: int64(rng.Intn(2))}) // B = 1: a flush that follows is issued while the jobs run
		case r < 78:
			p.Ops = append(p.Ops, core.Op{K: "rollup2", A: int64(rng.Intn(2))}) // two triggers back to back (a=1: from two goroutines at once)
		case r < 86:
			p.Ops = append(p.Ops, core.Op{K: "tick"})
		case r < 92:
			p.Ops = append(p.Ops, core.Op{K: "compact", T: fam})
		default:
			p.Ops = append(p.Ops, core.Op{K: "reopen"})
		}
		if rng.Intn(12) == 0 {
			// a rollup that dies between its two commits, more data for the same source family, the rollup again
			f2 := core.Op{K: "flush", T: fam, A: int64(1 + rng.Intn(2)), B: int64(1 + rng.Intn(4)), C: int64(rng.Intn(4)), S: fmt.Sprint(rng.Intn(1 << 30))}
			p.Ops = append(p.Ops, f2, core.Op{K: "rollup_cw"})
			if rng.Intn(2) == 0 {
				f3 := f2
				f3.S = fmt.Sprint(rng.Intn(1 << 30))
				p.Ops = append(p.Ops, f3)
			}
			p.Ops = append(p.Ops, core.Op{K: "rollup"})
		}
	}
	p.Ops = append(p.Ops, core.Op{K: "rollup"}, core.Op{K: "reopen"}, core.Op{K: "rollup"})
	p.Cfg["maporder"] = rng.Intn(2) // tape-chosen iteration order of Go maps in the code under test
	return p
}

var hours = []int{0, 5, 23}

type c04 struct {
	c          *core.RunCtx
	sim        *simrt.Sim
	base       string
	srcName    string
	day        int
	month      int
	loc        *time.Location
	targets    []target
	mgr        kv.StoreManager
	src        kv.Store
	tstores    map[string]kv.Store
	models     map[string]model // target (interval, family) -> expected content (all source files flushed so far)
	days       []int            // source days; days[0] is the primary one
	srcs       []kv.Store       // one source store per day
	srcNames   []string
	metrics    []uint32
	nMetrics   int
	inc        int
	dead       bool
	armed      bool
	crashP     float64
	skipSettle bool
	window     int // rollup_cw: 1 = waiting for a target commit, 2 = die at the next operation on the source store

	files        int                    // source files flushed so far
	epoch        int                    // rollup triggers and restarts so far
	origins      map[originKey][]origin // where the contributions of a target cell come from
	pendingKnown func()                 // first C04/first-last-order observation of the run (known finding)
}

func (h *c04) dayStart() int64 { return h.dayStartOf(h.day) }

// dayStartOf: local midnight of day d of the plan's month.
func (h *c04) dayStartOf(d int) int64 {
	return time.Date(2000, time.Month(h.month), d, 0, 0, 0, 0, h.loc).UnixMilli()
}

// slotKey names a target slot by the minute its time range starts at; slots are counted from the start of the target family.
func slotKey(famStart, interval, ts int64) int {
	return int((famStart + (ts-famStart)/interval*interval) / 60000)
}

func (h *c04) open() error {
	h.mgr = kv.VerifNewStoreManager()
	kv.InitStoreManager(h.mgr)
	h.tstores = map[string]kv.Store{}
	for _, t := range h.targets {
		if _, ok := h.tstores[t.store]; ok {
			continue
		}
		st, err := h.mgr.CreateStore(t.store, kv.DefaultStoreOption())
		if err != nil {
			return err
		}
		h.tstores[t.store] = st
	}
	opt := kv.DefaultStoreOption()
	opt.Source = timeutil.Interval(srcInterval)
	seenIv := map[int64]bool{}
	for _, t := range h.targets {
		if !seenIv[t.interval] {
			seenIv[t.interval] = true
			opt.Rollup = append(opt.Rollup, timeutil.Interval(t.interval))
		}
	}
	h.srcs = h.srcs[:0]
	for _, name := range h.srcNames {
		st, err := h.mgr.CreateStore(name, opt)
		if err != nil {
			return err
		}
		h.srcs = append(h.srcs, st)
	}
	h.src = h.srcs[0]
	return nil
}

// forAllSources runs fn for every source store: one after the other, or - plans with par_trigger - each in its own task.
func (h *c04) forAllSources(fn func(st kv.Store)) {
	if len(h.srcs) == 1 || h.c.Plan.C("par_trigger", 0) == 0 {
		for _, st := range h.srcs {
			fn(st)
		}
		return
	}
	done := 0
	for i, st := range h.srcs {
		st := st
		h.sim.Spawn(fmt.Sprintf("trigger-day%d", i), func() { fn(st); done++ })
	}
	h.sim.Await(func() bool { return done == len(h.srcs) || h.dead })
	h.sim.Fault("rollup-of-two-source-days-at-once")
}

func (h *c04) isSourcePath(path string) bool {
	for _, n := range h.srcNames {
		if path == n || strings.HasPrefix(path, n+"/") {
			return true
		}
	}
	return false
}

func (h *c04) famOpt() kv.FamilyOption {
	return kv.FamilyOption{Merger: string(metricsdata.MetricDataMerger), CompactThreshold: h.c.Plan.C("threshold", 0), RollupThreshold: 1}
}

func (h *c04) srcFamily(di, hour int) (kv.Family, error) {
	return h.srcs[di].CreateFamily(fmt.Sprint(hour), h.famOpt())
}

func (h *c04) families() []kv.Family {
	var fs []kv.Family
	for _, st := range append(append([]kv.Store{}, h.srcs...), h.sortedTargets()...) {
		names := st.ListFamilyNames()
		sort.Strings(names)
		for _, n := range names {
			fs = append(fs, st.GetFamily(n))
		}
	}
	return fs
}

func (h *c04) sortedTargets() []kv.Store {
	names := make([]string, 0, len(h.tstores))
	for n := range h.tstores {
		names = append(names, n)
	}
	sort.Strings(names)
	var out []kv.Store
	for _, n := range names {
		out = append(out, h.tstores[n])
	}
	return out
}

func (h *c04) awaitIdle() {
	for round := 0; round < 8; round++ {
		fams := h.families()
		busy := false
		for _, f := range fams {
			if kv.VerifFamilyBusy(f) {
				busy = true
			}
		}
		if !busy && round > 0 {
			return
		}
		h.sim.Await(func() bool {
			if h.dead {
				return true
			}
			for _, f := range fams {
				if kv.VerifFamilyBusy(f) {
					return false
				}
			}
			return true
		})
		if h.dead {
			return
		}
	}
}

func (h *c04) pending() int {
	n := 0
	for _, st := range h.srcs {
		for _, fn := range st.ListFamilyNames() {
			n += kv.VerifPendingRollupFiles(st.GetFamily(fn))
		}
	}
	return n
}

// check: once no rollup entry is pending every target equals the aggregate of all source files.
func (h *c04) check(when string) {
	c := h.c
	if h.pending() > 0 {
		h.sim.Probe("check-skipped-rollup-pending")
		return
	}
	for _, t := range h.targets {
		st := h.tstores[t.store]
		fam := st.GetFamily(t.family)
		obs := observed{}
		if fam != nil {
			snap := fam.GetSnapshot()
			tt := t
			var err error
			obs, err = readFamily(snap, h.metrics, func(_ uint32, s uint16) int {
				return slotKey(tt.famStart, tt.interval, tt.famStart+int64(s)*tt.interval)
			})
			snap.Close()
			if err != nil {
				c.Violate("C04/unreadable", "%s: target %s: %v", when, t.store, err)
				return
			}
		}
		// other families of the target store must stay empty
		for _, fn := range st.ListFamilyNames() {
			isTarget := false
			for _, t2 := range h.targets {
				isTarget = isTarget || (t2.store == t.store && t2.family == fn)
			}
			if isTarget {
				continue
			}
			snap := st.GetFamily(fn).GetSnapshot()
			o2, _ := readFamily(snap, h.metrics, func(_ uint32, s uint16) int { return int(s) })
			snap.Close()
			if len(o2) > 0 {
				c.Violate("C04/wrong-target-family", "%s: target store %s family %s holds data, expected only family %s", when, t.store, fn, t.family)
				return
			}
		}
		interval := t.interval
		if !compare(c, "C04", fmt.Sprintf("%s: target interval %dms family %s", when, t.interval, t.family), h.models[t.key()], obs, func(k cellKey, got []float64) bool {
			return h.strictFirstLast(when, interval, k, got)
		}) {
			return
		}
		h.sim.Probe("target-checked")
	}
}

func runC04(c *core.RunCtx) {
	sim := c.Sim
	h := &c04{c: c, sim: sim, base: filepath.Join(c.Dir, "db"), day: c.Plan.C("day", 1), models: map[string]model{}, origins: map[originKey][]origin{}, nMetrics: c.Plan.C("metrics", 1),
		crashP: float64(c.Plan.C("crash_pm", 0)) / 1000, month: c.Plan.C("month", 1), loc: core.Zone(c.Plan)}
	h.srcName = filepath.Join(h.base, "day", fmt.Sprintf("2000%02d%02d", h.month, h.day))
	h.days = []int{h.day}
	if d2 := c.Plan.C("day2", 0); d2 != 0 {
		h.days = append(h.days, d2)
	}
	for _, d := range h.days {
		h.srcNames = append(h.srcNames, filepath.Join(h.base, "day", fmt.Sprintf("2000%02d%02d", h.month, d)))
	}
	for i := 0; i < h.nMetrics; i++ {
		h.metrics = append(h.metrics, uint32(10+i))
	}
	tbits := c.Plan.C("targets", 1)
	if tbits&1 != 0 {
		// 5 minutes: month calculator, segment = month, family = day of month, slots within the day
		for _, d := range h.days {
			h.targets = append(h.targets, target{interval: 5 * 60 * 1000, store: filepath.Join(h.base, "month", fmt.Sprintf("2000%02d", h.month)), family: fmt.Sprint(d), famStart: h.dayStartOf(d), day: d})
		}
	}
	if tbits&2 != 0 {
		// 1 hour: year calculator, segment = year, family = month, slots within the month
		h.targets = append(h.targets, target{interval: hourMs, store: filepath.Join(h.base, "year", "2000"), family: fmt.Sprint(h.month), famStart: h.dayStartOf(1)})
	}
	for _, t := range h.targets {
		h.models[t.key()] = model{}
	}
	pre := func(op, path string) {
		if !h.armed || h.dead || sim.CurInc() != h.inc {
			return
		}
		if h.window > 0 {
			// the process dies between the commit in a target family and the commit in the source family: at the
			// first operation on the source store after a target store's manifest was synced
			inSrc := h.isSourcePath(path)
			switch {
			case h.window == 1 && !inSrc && op == "sync" && strings.Contains(path, "MANIFEST"):
				h.window = 2
			case h.window == 2 && inSrc:
				h.window = 0
				h.skipSettle = true // the plan goes on with more data for that family and the rollup again
				h.dead = true
				sim.Fault("crash-between-target-and-source-commit")
				sim.Event("crash before %s %s", op, strings.TrimPrefix(path, c.Dir))
				sim.Kill(h.inc)
			}
			return
		}
		if sim.Tape.Chance(h.crashP) {
			h.dead = true
			sim.Fault("crash@" + op)
			sim.Event("crash before %s %s", op, strings.TrimPrefix(path, c.Dir))
			sim.Kill(h.inc)
		}
	}
	kv.VerifSetFS(pre)
	version.VerifSetFS(pre)
	table.VerifSetFS(pre)
	defer func() {
		kv.VerifSetFS(nil)
		version.VerifSetFS(nil)
		table.VerifSetFS(nil)
	}()

	next := 0
	for incarnation := 0; incarnation < 8 && next < len(c.Plan.Ops) && !c.Violated(); incarnation++ {
		h.inc = sim.NewIncarnation()
		h.dead = false
		h.armed = false
		finished := false
		sim.SpawnIn(h.inc, fmt.Sprintf("driver%d", incarnation), func() {
			defer func() { finished = true }()
			if err := h.open(); err != nil {
				c.Violate("C04/reopen-failed", "opening the stores failed: %v", err)
				return
			}
			h.epoch++
			if incarnation > 0 && h.skipSettle {
				h.skipSettle = false
			} else if incarnation > 0 {
				// after a process death: finish whatever rollup is still registered, then judge
				h.forAllSources(func(st kv.Store) { st.ForceRollup() })
				h.awaitIdle()
				h.check("after restart + rollup")
			}
			doFlush := func(fop core.Op) bool {
				hour := hours[fop.T%3]
				di := (fop.T / 3) % len(h.days)
				f, err := h.srcFamily(di, hour)
				if err != nil {
					c.Anomaly("source family: %v", err)
					return false
				}
				fc := genFile(fop, h.nMetrics, 360)
				if err := writeFile(f, fc); err != nil {
					c.Anomaly("write file: %v", err)
					return false
				}
				famStart := h.dayStartOf(h.days[di]) + int64(hour)*hourMs
				h.files++
				for _, t := range h.targets {
					if !t.accepts(h.days[di]) {
						continue
					}
					tt := t
					fileNo := h.files
					h.models[t.key()].addFile(fc, func(_ uint32, s uint16) int { return slotKey(tt.famStart, tt.interval, famStart+int64(s)*srcInterval) },
						func(k cellKey, v float64, s uint16) {
							ok := originKey{tt.interval, k}
							h.origins[ok] = append(h.origins[ok], origin{epoch: h.epoch, file: fileNo, at: famStart + int64(s)*srcInterval, v: v})
						})
				}
				return true
			}
			for next < len(c.Plan.Ops) && !c.Violated() {
				op := c.Plan.Ops[next]
				next++
				sim.Event("op %s", op.String())
				switch op.K {
				case "flush":
					if !doFlush(op) {
						return
					}
					continue // nothing to judge until a rollup ran
				case "rollup_cw":
					h.epoch++
					h.armed, h.window = true, 1
					h.forAllSources(func(st kv.Store) { st.ForceRollup() })
					h.awaitIdle()
					h.armed, h.window = false, 0
				case "rollup", "rollup2":
					h.epoch++
					h.armed = h.crashP > 0
					if op.K == "rollup2" && op.A == 1 {
						// the store's compaction timer and a manual trigger at the same moment, each in its own goroutine
						done := 0
						sim.Spawn("trigger-timer", func() { kv.VerifStoreCompact(h.src); done++ })
						sim.Spawn("trigger-manual", func() { h.src.ForceRollup(); done++ })
						sim.Await(func() bool { return done == 2 || h.dead })
						sim.Fault("parallel-rollup-trigger")
					} else {
						h.forAllSources(func(st kv.Store) { st.ForceRollup() })
						if op.K == "rollup" && op.B == 1 && h.crashP == 0 && next < len(c.Plan.Ops) && c.Plan.Ops[next].K == "flush" {
							// the next file of a source family is flushed while the rollup jobs run: it belongs to this
							// job or to the next one, never to none (plans without process deaths: a flush in flight at
							// a death may or may not have happened, the model of these histories has no such case)
							fop := c.Plan.Ops[next]
							next++
							sim.Event("op %s (while the rollup runs)", fop.String())
							sim.Fault("flush-during-rollup")
							if !doFlush(fop) {
								return
							}
						}
						if op.K == "rollup2" {
							sim.YieldNow()
							h.forAllSources(func(st kv.Store) { st.ForceRollup() })
							sim.Fault("overlapping-rollup-trigger")
						}
					}
					h.awaitIdle()
					h.armed = false
				case "tick":
					h.epoch++
					h.armed = h.crashP > 0
					h.forAllSources(func(st kv.Store) { kv.VerifStoreCompact(st) })
					h.awaitIdle()
					h.armed = false
				case "compact":
					if f := h.srcs[(op.T/3)%len(h.srcs)].GetFamily(fmt.Sprint(hours[op.T%3])); f != nil {
						f.Compact()
						h.awaitIdle()
					}
					continue
				case "reopen":
					h.awaitIdle()
					for _, n := range h.srcNames {
						_ = h.mgr.CloseStore(n)
					}
					for _, st := range h.sortedTargets() {
						_ = h.mgr.CloseStore(st.Name())
					}
					sim.Fault("close-reopen")
					if err := h.open(); err != nil {
						c.Violate("C04/reopen-failed", "reopen failed: %v", err)
						return
					}
					continue
				}
				if h.dead {
					return
				}
				h.check("after " + op.String())
			}
		})
		sim.Await(func() bool { return finished || h.dead })
		if !h.dead {
			break
		}
		simrt.Sleep(time.Millisecond)
	}
	if h.pendingKnown != nil && !c.Violated() && c.Res.Anomaly == "" {
		h.pendingKnown()
	}
}

// ---- first / last fields: the value of the latest / earliest source slot ---------------------------------

type origin struct {
	epoch int   // number of rollup triggers (and restarts) before the flush: files of one epoch go through one merge
	file  int   // source file (flush) number
	at    int64 // timestamp of the source slot
	v     float64
}

type originKey struct {
	interval int64
	k        cellKey
}

// strictFirstLast: a target slot of a last (first) field holds the value of the latest (earliest) source slot that
// falls into it - "the field-type aggregate of exactly those source slots". Judged when one target file holds the
// cell (every contribution went through one merge, or the merges were merged). One rollup job folds its source files
// in time order (since the repair of DownSamplingMultiSeriesInto). Source files rolled up by DIFFERENT jobs (late data
// of a family that was rolled up before) meet as target files, which no longer know the source slots: the later
// target file wins - known finding C04/first-last-order, reported at the end of the run; everything else is
// C04/first-last-wrong.
func (h *c04) strictFirstLast(when string, interval int64, k cellKey, got []float64) bool {
	if len(got) != 1 {
		return true
	}
	os := h.origins[originKey{interval, k}]
	if len(os) == 0 {
		return true
	}
	last := fieldType(k.field) == field.LastField
	best := os[0].at
	files := map[int]bool{}
	for _, o := range os {
		files[o.epoch] = true
		if (last && o.at > best) || (!last && o.at < best) {
			best = o.at
		}
	}
	var want []float64
	for _, o := range os {
		if o.at == best {
			want = append(want, o.v)
			if o.v == got[0] {
				if len(os) > 1 {
					h.sim.Probe("first-last-judged-by-source-time")
				}
				return true
			}
		}
	}
	word := "earliest"
	if last {
		word = "latest"
	}
	if len(files) > 1 {
		if h.pendingKnown == nil {
			detail := fmt.Sprintf("%s: target interval %dms metric %d series %d field %d slot %d holds %v, the %s source slot contributed %v (contributions of source files rolled up by %d different jobs)", when, interval, k.metric, k.series, k.field, k.slot, got[0], word, want, len(files))
			h.pendingKnown = func() { h.c.Violate("C04/first-last-order", "%s", detail) }
		}
		h.sim.Probe("first-last-folded-out-of-time-order")
		return true
	}
	h.c.Violate("C04/first-last-wrong", "%s: target interval %dms metric %d series %d field %d slot %d holds %v, the %s source slot contributed %v", when, interval, k.metric, k.series, k.field, k.slot, got[0], word, want)
	return false
}
