package node

import (
	"errors"
	"fmt"
	"math/rand"
	"os"
	"runtime/debug"
	"sort"
	"strings"

	"github.com/lindb/lindb/kv/table"

	"verifsim/core"
)

// ---- C19 on a real leaf: one request, one response ---------------------------------------------------
//
// The pipe harness drives the pipeline with scripted stages. Here the stages are lindb's own: a real engine with
// flushed data, the real leaf task processor answering data statements (with and without group by) and metadata
// statements (show tag values / tag keys / fields), one or two leaves, optionally an intermediate node. Failures
// are real ones: opening (mapping) a table file fails with an I/O error at a tape-chosen moment while a request
// is being processed, after a restart so that no reader is cached. Judged per request and leaf: exactly one
// response leaves the leaf - never none (the root would wait for its time-out), never two (pipeline completion
// AND a returned error; a second answer when the task context expires) - and a request during which a read failed
// is not answered as a success.

func genC19n(rng *rand.Rand, tier string) *core.Plan {
	p := &core.Plan{Harness: "node", Prop: "C19", Cfg: map[string]int{}}
	p.Cfg["preempt_pm"] = []int{0, 2, 10}[rng.Intn(3)]
	p.Cfg["switch_pm"] = []int{50, 300}[rng.Intn(2)]
	p.Cfg["max_steps"] = 6000000
	p.Cfg["procs"] = rng.Intn(3)
	p.Cfg["shards"] = 1 + rng.Intn(3)
	p.Cfg["nseries"] = 2 + rng.Intn(6)
	p.Cfg["sseed"] = rng.Intn(1 << 20)
	p.Cfg["ioerr_pm"] = []int{0, 150, 400, 1000}[rng.Intn(4)] // per table file opened while a request is processed
	p.Cfg["ioerr_max"] = 1 + rng.Intn(3)
	p.Cfg["maporder"] = rng.Intn(2)
	core.GenZone(p, rng.Intn)         // the node's local time zone
	p.Cfg["realmgr"] = rng.Intn(2)    // responses are received by lindb's own task manager on a real worker pool
	p.Cfg["mgrworkers"] = rng.Intn(3) // 1-3 workers
	p.Ops = append(p.Ops, core.Op{K: "write", A: int64(2 + rng.Intn(10)), S: fmt.Sprint(rng.Intn(1 << 30))})
	n := 3 + rng.Intn(6)
	for i := 0; i < n; i++ {
		switch r := rng.Intn(100); {
		case r < 15:
			p.Ops = append(p.Ops, core.Op{K: "write", A: int64(1 + rng.Intn(8)), S: fmt.Sprint(rng.Intn(1 << 30))})
		case r < 35:
			p.Ops = append(p.Ops, core.Op{K: "flush"})
		case r < 50:
			p.Ops = append(p.Ops, core.Op{K: "flush"}, core.Op{K: "restart"})
		default:
			p.Ops = append(p.Ops, core.Op{K: "req", A: int64(rng.Intn(3)), S: fmt.Sprint(rng.Intn(1 << 30))})
		}
	}
	p.Ops = append(p.Ops, core.Op{K: "flush"}, core.Op{K: "restart"}, core.Op{K: "req", A: int64(rng.Intn(3)), S: fmt.Sprint(rng.Intn(1 << 30))})
	return p
}

func runC19n(c *core.RunCtx) {
	n, err := Start(c, c.Dir)
	if err != nil {
		c.Anomaly("start: %v", err)
		return
	}
	r := &run{c: c, n: n, db: "d" + NewTag(c), shards: c.Plan.C("shards", 1)}
	if err := n.CreateDB(r.db, r.shards); err != nil {
		c.Anomaly("create db: %v", err)
		return
	}
	r.genSeries()
	armed, injected, left := false, 0, c.Plan.C("ioerr_max", 1)
	pm := c.Plan.C("ioerr_pm", 0)
	table.VerifSetFS(func(op, path string) {})
	table.VerifSetFSFail(func(op, path string) error {
		if !armed || op != "map" || left <= 0 || pm == 0 {
			return nil
		}
		if c.Sim.Tape.Choose(1000) >= pm {
			return nil
		}
		left--
		injected++
		c.Sim.Fault("io-error@open-table")
		if os.Getenv("VERIF_TRACE") != "" {
			c.Sim.Event("injected at %s\n%s", path, debug.Stack())
		}
		return errors.New("injected: input/output error")
	})
	defer func() {
		table.VerifSetFS(nil)
		table.VerifSetFSFail(nil)
	}()
	for i, op := range c.Plan.Ops {
		if c.Violated() || c.Res.Anomaly != "" {
			return
		}
		c.Sim.Event("op %d %s", i, op.String())
		switch op.K {
		case "write":
			r.write(op)
		case "flush":
			r.flush()
		case "restart":
			r.epoch++
			r.n.Engine.Close()
			c.Sim.Fault("close-reopen")
			n2, err := Start(c, c.Dir)
			if err != nil {
				c.Violate("C19/reopen-failed", "engine reopen: %v", err)
				return
			}
			r.n = n2
		case "req":
			rng := rand.New(rand.NewSource(atoi(op.S)))
			var sqlText string
			switch op.A {
			case 0: // data statement
				sqlText = genQuery(rng, "C11", 1, false, false).sql()
			case 1: // data statement with group by (grouping stages, tag value collection)
				q := genQuery(rng, "C11", 1, false, false)
				q.groupBy = [][]string{{"host"}, {"id"}, {"id", "host"}}[rng.Intn(3)]
				sqlText = q.sql()
			default:
				sqlText = []string{
					"show tag values from m with key=host",
					"show tag values from m with key=zone",
					"show tag values from m with key=host where zone='eu'",
					"show tag keys from m",
					"show fields from m",
					"show metrics",
				}[rng.Intn(6)]
			}
			// one leaf per shard set: all shards on one leaf, or one leaf per shard; group-by statements also through
			// an intermediate node
			lay := Layout{Track: &ReqTrack{Requests: map[string]int{}, Responses: map[string]int{}}}
			all := make([]int, r.shards)
			for i := range all {
				all[i] = i
			}
			if r.shards > 1 && rng.Intn(2) == 0 {
				for _, s := range all {
					lay.Leaves = append(lay.Leaves, []int{s})
				}
			} else {
				lay.Leaves = [][]int{all}
			}
			if op.A == 1 && rng.Intn(3) == 0 {
				lay.Intermediate = true
			}
			before := injected
			armed = true
			_, qerr := r.n.Query(r.db, sqlText, lay)
			armed = false
			c.Oracle()
			var leaves []string
			for leaf := range lay.Track.Requests {
				leaves = append(leaves, leaf)
			}
			sort.Strings(leaves)
			for _, leaf := range leaves {
				switch got := lay.Track.Responses[leaf]; {
				case got == 0:
					c.Violate("C19/no-response", "%s: leaf %s received the request and never answered (statement ended with: %v)", sqlText, leaf, qerr)
					return
				case got > 1:
					c.Violate("C19/two-responses", "%s: leaf %s sent %d responses for one request (statement ended with: %v)", sqlText, leaf, got, qerr)
					return
				}
			}
			if injected > before {
				c.Sim.Probe("request-with-failed-read")
				// (metadata suggestions are best effort by design: tagValueCollect "ignores shard level errors")
				if qerr == nil && op.A != 2 {
					c.Violate("C19/failure-answered-as-success", "%s: opening a table file failed %d time(s) while the request was processed, the statement was answered without an error", sqlText, injected-before)
					return
				}
				if qerr == nil {
					c.Sim.Probe("failed-read-ignored-by-suggestion")
				} else if !strings.Contains(qerr.Error(), "injected") {
					c.Sim.Probe("failed-read-reported-as-other-error")
				}
			} else if qerr == nil {
				c.Sim.Probe("request-answered")
			} else {
				c.Sim.Probe("request-rejected")
			}
		}
	}
}
