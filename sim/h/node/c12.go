package node

import (
	"math/rand"

	"verifsim/core"
)

func genC12(rng *rand.Rand, tier string) *core.Plan {
	return &core.Plan{Harness: "node", Prop: "C12", Cfg: map[string]int{}}
}
func runC12(c *core.RunCtx) {}
