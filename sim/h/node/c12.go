package node

import (
	"fmt"
	"math/rand"
	"os"
	"sort"
	"strings"
	"time"

	commonmodels "github.com/lindb/common/models"

	"verifsim/core"
	"verifsim/h/rows"
)

// ---- C12: the answer does not depend on sharding, node placement or response order -----------
//
// One engine holds the same points twice: database A with one shard, database K with 2-4 shards over
// which the series are spread. Every query is executed under several physical layouts
//   - A: one leaf
//   - K: one leaf with all shards
//   - K: the shards partitioned over 2..k leaf nodes (some partitions leave a leaf with shards that hold
//     no matching data)
//   - K: the same partition with an intermediate node between root and leaves (group-by queries)
// each with tape-chosen transit times of the responses, so arrival order and the interleaving of arrivals
// with leaves that still work vary. Every answer is compared with the reference model of C11 and the
// answers are compared with each other.

func genC12(rng *rand.Rand, tier string) *core.Plan {
	p := &core.Plan{Harness: "node", Prop: "C12", Cfg: map[string]int{}}
	p.Cfg["preempt_pm"] = []int{0, 0, 2, 10}[rng.Intn(4)]
	p.Cfg["switch_pm"] = []int{50, 300}[rng.Intn(2)]
	p.Cfg["max_steps"] = 6000000
	p.Cfg["procs"] = rng.Intn(3)
	p.Cfg["shards"] = 2 + rng.Intn(3)
	p.Cfg["nseries"] = 2 + rng.Intn(10)
	p.Cfg["sseed"] = rng.Intn(1 << 20)
	n := 3 + rng.Intn(6)
	for i := 0; i < n; i++ {
		switch r := rng.Intn(100); {
		case r < 45:
			p.Ops = append(p.Ops, core.Op{K: "write", A: int64(1 + rng.Intn(12)), S: fmt.Sprint(rng.Intn(1 << 30))})
		case r < 60:
			p.Ops = append(p.Ops, core.Op{K: "flush"})
		case r < 64:
			p.Ops = append(p.Ops, core.Op{K: "jump", A: int64([]int{65530, 65536, 70000}[rng.Intn(3)])})
		default:
			p.Ops = append(p.Ops, core.Op{K: "query", S: fmt.Sprint(rng.Intn(1 << 30)), A: int64(rng.Intn(1 << 20))})
		}
	}
	p.Ops = append(p.Ops, core.Op{K: "query", S: fmt.Sprint(rng.Intn(1 << 30)), A: int64(rng.Intn(1 << 20))})
	p.Cfg["maporder"] = rng.Intn(2) // tape-chosen iteration order of Go maps in the code under test
	core.GenZone(p, rng.Intn)       // the node's local time zone
	p.Cfg["families"] = 1 + rng.Intn(2)
	p.Cfg["fieldmodes"] = rng.Intn(2)
	p.Cfg["route"] = rng.Intn(2) // the rows find their shard and family through lindb's broker-side routing
	p.Cfg["multi"] = rng.Intn(2) // statements may select two columns
	p.Cfg["failleaf"] = rng.Intn(2)
	p.Cfg["fx"] = rng.Intn(2)         // histograms; rate, arithmetic, quantile, functions on last / first fields
	p.Cfg["bigbatch"] = rng.Intn(2)   // batches of up to 48 rows
	p.Cfg["nodes"] = rng.Intn(2)      // the shards also live on 2..k storage nodes with metadata (ids) of their own
	p.Cfg["realmgr"] = rng.Intn(2)    // responses are received by lindb's own task manager on a real worker pool
	p.Cfg["mgrworkers"] = rng.Intn(3) // 1-3 workers
	return p
}

var strangerDB string

type layoutDef struct {
	name string
	r    *run
	lay  Layout
}

func runC12(c *core.RunCtx) {
	n, err := Start(c, c.Dir)
	if err != nil {
		c.Anomaly("start: %v", err)
		return
	}
	k := c.Plan.C("shards", 2)
	tag := NewTag(c)
	route := c.Plan.C("route", 0) == 1
	ra := &run{c: c, n: n, db: "a" + tag, shards: 1, route: route}
	rk := &run{c: c, n: n, db: "k" + tag, shards: k, route: route}
	for _, r := range []*run{ra, rk} {
		if err := n.CreateDB(r.db, r.shards); err != nil {
			c.Anomaly("create db: %v", err)
			return
		}
		r.genSeries()
	}
	// a database that never receives a point: the storage of a node that has never seen the metric
	strangerDB = "e" + tag
	if err := n.CreateDB(strangerDB, 1); err != nil {
		c.Anomaly("create db: %v", err)
		return
	}
	// storage nodes with their own metadata: the k shards are spread over 2..k node databases; every node assigns
	// its own metric / tag key / tag value / field / series ids (a node has seen other metrics before, and meets
	// the fields and tags of the metric in the order of its own rows)
	var nodes []*run
	var nodeParts [][]int
	if c.Plan.C("nodes", 0) == 1 {
		nrng := rand.New(rand.NewSource(int64(c.Plan.C("sseed", 1)) ^ 0x6e6f6465))
		nn := 2 + nrng.Intn(k-1)
		nodeParts = make([][]int, nn)
		for i, s := range nrng.Perm(k) {
			ni := i
			if i >= nn {
				ni = nrng.Intn(nn)
			}
			nodeParts[ni] = append(nodeParts[ni], s)
		}
		for i := range nodeParts {
			sort.Ints(nodeParts[i])
			r := &run{c: c, n: n, db: fmt.Sprintf("n%d%s", i, tag), shards: k, route: route, own: map[int]bool{}}
			for _, s := range nodeParts[i] {
				r.own[s] = true
			}
			if err := n.CreateDBShards(r.db, nodeParts[i]); err != nil {
				c.Anomaly("create db: %v", err)
				return
			}
			r.genSeries()
			// node i has seen i other metrics (with tag keys and fields of their own) before
			for j := 0; j < i; j++ {
				noise := rows.Point{Name: fmt.Sprintf("other%d", j), Tags: map[string]string{fmt.Sprintf("k%d", j): "v", "host": "h1"}, Timestamp: Jan1,
					Fields: []rows.Field{{Name: fmt.Sprintf("g%d", j), Type: fieldSpecs[0].typ, Value: 1}}}
				if err := n.Write(r.db, nodeParts[i][0], []rows.Point{noise}); err != nil {
					c.Anomaly("write: %v", err)
					return
				}
			}
			nodes = append(nodes, r)
		}
		c.Sim.Probe(fmt.Sprintf("node-databases-%d", nn))
	}
	for i, op := range c.Plan.Ops {
		if c.Violated() || c.Res.Anomaly != "" {
			return
		}
		c.Sim.Event("op %d %s", i, op.String())
		switch op.K {
		case "write":
			ra.write(op)
			rk.write(op)
			for _, r := range nodes {
				r.write(op)
			}
		case "flush":
			ra.flush()
			rk.flush()
			for _, r := range nodes {
				r.flush()
			}
		case "jump":
			ra.jump(op.A)
			rk.jump(op.A)
			for _, r := range nodes {
				r.jump(op.A)
			}
		case "query":
			queryC12(c, ra, rk, op, nodes, nodeParts)
		}
	}
}

func queryC12(c *core.RunCtx, ra, rk *run, op core.Op, nodes []*run, nodeParts [][]int) {
	rng := rand.New(rand.NewSource(atoi(op.S)))
	q := genQuery(rng, "C11", c.Plan.C("families", 1), c.Plan.C("multi", 0) == 1, c.Plan.C("fx", 0) == 1)
	sqlText := q.sql()
	before := len(rk.points)
	exp := rk.expected(q, before)
	k := rk.shards
	lrng := rand.New(rand.NewSource(op.A))
	delay := func() time.Duration {
		return []time.Duration{0, 0, time.Millisecond, 3 * time.Millisecond}[c.Sim.Tape.Choose(4)]
	}
	all := make([]int, k)
	for i := range all {
		all[i] = i
	}
	// a random partition of the shards over 2..k leaves
	nl := 2 + lrng.Intn(k-1)
	part := make([][]int, nl)
	perm := lrng.Perm(k)
	for i, s := range perm {
		li := i
		if i >= nl {
			li = lrng.Intn(nl)
		}
		part[li] = append(part[li], s)
	}
	for i := range part {
		sort.Ints(part[i])
	}
	layouts := []layoutDef{
		{"one shard", ra, Layout{Leaves: [][]int{{0}}, Delay: delay}},
		{fmt.Sprintf("%d shards on one leaf", k), rk, Layout{Leaves: [][]int{all}, Delay: delay}},
		{fmt.Sprintf("%d shards on leaves %v", k, part), rk, Layout{Leaves: part, Delay: delay}},
	}
	layouts = append(layouts, layoutDef{fmt.Sprintf("%d shards on leaves %v plus a node that never saw the metric", k, part), rk, Layout{Leaves: part, Delay: delay, StrangerDB: strangerDB}})
	if len(q.groupBy) > 0 {
		layouts = append(layouts, layoutDef{fmt.Sprintf("%d shards on leaves %v through an intermediate node", k, part), rk, Layout{Leaves: part, Intermediate: true, Delay: delay}})
		layouts = append(layouts, layoutDef{"one shard through an intermediate node", ra, Layout{Leaves: [][]int{{0}}, Intermediate: true, Delay: delay}})
	}
	if len(nodes) > 0 {
		var dbs []string
		for _, r := range nodes {
			dbs = append(dbs, r.db)
		}
		layouts = append(layouts, layoutDef{fmt.Sprintf("%d shards on storage nodes %v with their own metadata", k, nodeParts), rk, Layout{Leaves: nodeParts, LeafDB: dbs, Delay: delay}})
		if len(q.groupBy) > 0 {
			layouts = append(layouts, layoutDef{fmt.Sprintf("%d shards on storage nodes %v with their own metadata through an intermediate node", k, nodeParts), rk, Layout{Leaves: nodeParts, LeafDB: dbs, Intermediate: true, Delay: delay}})
		}
	}
	type answer struct {
		name string
		err  error
		rs   *commonmodels.ResultSet
	}
	var answers []answer
	for _, l := range layouts {
		l := l
		stop := func() bool {
			rs, err := l.r.n.Query(l.r.db, sqlText, l.lay)
			c.Oracle()
			answers = append(answers, answer{l.name, err, rs})
			if err != nil {
				for _, kk := range rk.unknownKeys(q, before) {
					if err == nil {
						break
					}
					if strings.Contains(err.Error(), "tag key: "+kk) {
						err = nil
					}
					// every node rejected the statement; the root reports the not-found that arrived last, which
					// is the stranger's "metric not found" when that one is the slowest
					if err != nil && l.lay.StrangerDB != "" && strings.Contains(err.Error(), "metric not found") {
						err = nil
					}
				}
				if err == nil {
					c.Sim.Probe("unknown-tag-key")
					return false
				}
				if strings.Contains(err.Error(), "not found") && len(exp) == 0 && (!q.two || len(rk.expected(q.second(), before)) == 0) {
					c.Sim.Probe("empty-result")
					return false
				}
				if q.two && strings.Contains(err.Error(), "not found") {
					// a statement naming a field that no written point carries is rejected
					unknown := false
					for _, qq := range []queryDef{q, q.second()} {
						written := false
						for _, p := range rk.points[:before] {
							written = written || p.field == qq.field
						}
						unknown = unknown || !written
					}
					if unknown {
						c.Sim.Probe("unknown-field")
						return false
					}
				}
				if strings.Contains(err.Error(), "not found") {
					c.Violate("C12/data-not-found", "%s [%s]: query failed with %q but %d groups are expected", sqlText, l.name, err, len(exp))
					return true
				}
				c.Violate("C12/query-failed", "%s [%s]: %v", sqlText, l.name, err)
				return true
			}
			rk.compare(sqlText+" ["+l.name+"]", q, exp, rs)
			if q.two && !c.Violated() {
				rk.compare(sqlText+" ["+l.name+", 2nd column]", q.second(), rk.expected(q.second(), before), rs)
			}
			if c.Violated() {
				if os.Getenv("VERIF_TRACE") != "" {
					for sh := 0; sh < k; sh++ {
						rs1, err1 := rk.n.Query(rk.db, sqlText, Layout{Leaves: [][]int{{sh}}})
						if err1 != nil {
							c.Sim.Event("  shard %d alone: %v", sh, err1)
							continue
						}
						for _, s1 := range rs1.Series {
							c.Sim.Event("  shard %d alone: %v %v", sh, s1.Tags, s1.Fields)
						}
					}
					(&run{c: c, n: rk.n, db: rk.db, shards: k}).dumpIndex()
				}
				return true
			}
			return false
		}()
		if stop {
			return
		}
	}
	// a leaf that fails with a real error: whatever the arrival order, the statement fails (a partial answer
	// without an error is a wrong answer)
	if c.Plan.C("failleaf", 0) == 1 {
		rsF, errF := rk.n.Query(rk.db, sqlText, Layout{Leaves: part, Delay: delay, FailLeaf: true})
		c.Oracle()
		if errF == nil {
			n := 0
			if rsF != nil {
				n = len(rsF.Series)
			}
			c.Violate("C12/leaf-error-lost", "%s [%d shards on leaves %v plus a leaf that fails]: answered %d series and no error although one leaf reported \"injected: storage of this leaf failed\"", sqlText, k, part, n)
			return
		}
		c.Sim.Fault("failing-leaf")
		c.Sim.Probe("failing-leaf-reported")
	}
	// metamorphic relation: all layouts give the same answer. Fields whose aggregate depends on the order
	// in which series are merged (last/first) are only compared when a group is one series.
	agg := fieldSpecs[q.field].agg
	oneSeriesPerGroup := false
	for _, g := range q.groupBy {
		if g == "id" {
			oneSeriesPerGroup = true
		}
	}
	// first/last: the same points may sit in other places (memory / files) in the two databases and lindb
	// combines such fields in the order it meets the places (known finding of C11), so only presence is compared
	_ = oneSeriesPerGroup
	comparable := agg == "sum" || agg == "min" || agg == "max"
	// min(f)/max(f) of a sum field: lindb combines the partial sums of a slot that sit in different places by the
	// function (known finding of C11, function-over-partial-sums), and where the points sit differs between the
	// two databases: presence only, like first/last
	valuesOf := func(qq queryDef) bool {
		a := fieldSpecs[qq.field].agg
		return (a == "sum" || a == "min" || a == "max") && qq.fn != "min" && qq.fn != "max"
	}
	comparable = comparable && valuesOf(q)
	// a rejection with "not found" where the model expects nothing is the empty answer
	expEmpty := len(exp) == 0 && (!q.two || len(rk.expected(q.second(), before)) == 0)
	for i := range answers {
		if answers[i].err != nil && expEmpty && strings.Contains(answers[i].err.Error(), "not found") {
			answers[i].err, answers[i].rs = nil, &commonmodels.ResultSet{}
		}
	}
	for i := range answers {
		if answers[i].err == nil && expEmpty && answers[i].rs != nil {
			// (interval / start / end of an empty answer are not compared)
			answers[i].rs = &commonmodels.ResultSet{}
		}
	}
	base := answers[0]
	for _, a := range answers[1:] {
		if (a.err == nil) != (base.err == nil) {
			c.Violate("C12/layout-changes-outcome", "%s: [%s] answered err=%v, [%s] answered err=%v", sqlText, base.name, base.err, a.name, a.err)
			return
		}
		if a.err != nil {
			continue
		}
		if d := diffResult(q, base.rs, a.rs, comparable); d != "" {
			c.Violate("C12/layout-changes-answer", "%s: [%s] and [%s] differ: %s", sqlText, base.name, a.name, d)
			return
		}
		if q.two {
			if d := diffResult(q.second(), base.rs, a.rs, valuesOf(q.second())); d != "" {
				c.Violate("C12/layout-changes-answer", "%s: [%s] and [%s] differ in the 2nd column: %s", sqlText, base.name, a.name, d)
				return
			}
		}
	}
	c.Sim.Probe(fmt.Sprintf("layouts-%d", len(answers)))
}

func groupKey(q queryDef, s *commonmodels.Series) string {
	var key []string
	for _, k := range q.groupBy {
		key = append(key, s.Tags[k])
	}
	return strings.Join(key, ",")
}

// diffResult compares two result sets: groups with at least one value of the field, and (if values) every value.
func diffResult(q queryDef, a, b *commonmodels.ResultSet, values bool) string {
	fname := q.column()
	idx := func(rs *commonmodels.ResultSet) map[string]map[int64]float64 {
		m := map[string]map[int64]float64{}
		for _, s := range rs.Series {
			vals := s.Fields[fname]
			if q.kind == "quantile" {
				// lindb answers 0 for a slot without observations (a quantile of observations is never 0 with
				// these bounds): 0 is "no value" here, as in the comparison with the model
				vals = map[int64]float64{}
				for t, v := range s.Fields[fname] {
					if v != 0 {
						vals[t] = v
					}
				}
			}
			if len(vals) == 0 {
				continue
			}
			m[groupKey(q, s)] = vals
		}
		return m
	}
	ma, mb := idx(a), idx(b)
	keys := map[string]bool{}
	for k := range ma {
		keys[k] = true
	}
	for k := range mb {
		keys[k] = true
	}
	var ks []string
	for k := range keys {
		ks = append(ks, k)
	}
	sort.Strings(ks)
	for _, k := range ks {
		va, oka := ma[k]
		vb, okb := mb[k]
		if oka != okb {
			return fmt.Sprintf("group %q present=%v / present=%v (%d / %d values)", k, oka, okb, len(va), len(vb))
		}
		if len(va) != len(vb) {
			return fmt.Sprintf("group %q has %d / %d slots", k, len(va), len(vb))
		}
		var ts []int64
		for t := range va {
			ts = append(ts, t)
		}
		sort.Slice(ts, func(i, j int) bool { return ts[i] < ts[j] })
		for _, t := range ts {
			x, ok := vb[t]
			if !ok {
				return fmt.Sprintf("group %q slot %s only in the first", k, fmtTime(t))
			}
			if values && x != va[t] {
				return fmt.Sprintf("group %q slot %s = %v / %v", k, fmtTime(t), va[t], x)
			}
		}
	}
	if a.Interval != b.Interval || a.StartTime != b.StartTime || a.EndTime != b.EndTime {
		return fmt.Sprintf("interval/start/end %d/%d/%d vs %d/%d/%d", a.Interval, a.StartTime, a.EndTime, b.Interval, b.StartTime, b.EndTime)
	}
	return ""
}
