package node

import (
	"context"
	"fmt"
	"math"
	"math/rand"
	"os"
	"path/filepath"
	"strings"
	"time"

	"github.com/lindb/common/pkg/ltoml"
	protoMetricsV1 "github.com/lindb/common/proto/gen/v1/linmetrics"

	"github.com/lindb/lindb/config"
	"github.com/lindb/lindb/kv"
	"github.com/lindb/lindb/kv/table"
	"github.com/lindb/lindb/kv/version"
	"github.com/lindb/lindb/models"
	"github.com/lindb/lindb/pkg/compress"
	"github.com/lindb/lindb/replica"
	"github.com/lindb/lindb/tsdb"

	"verifsim/core"
	"verifsim/h/rows"
	"verifsim/simrt"
)

// ---- C07: node crash recovery loses no logged write, never replays a persisted one -------------------
//
// A real storage node without its network: tsdb engine, the real write-ahead-log manager with one
// partition (leader = this node) and its real local replicator, the engine's real flush checker. The
// harness appends messages to the log (as the write handler does), asks for flushes (as the flush checker's
// timer / the flush API does), runs the log's housekeeping (Sync + GC), shuts down cleanly or kills the
// process at a tape-chosen point: a file-system operation of any kv store, a function entry of the queue,
// replica, tsdb, index or kv packages (weighted towards commit / acknowledge), or while idle. After every
// restart (real recovery of the log manager) and catch-up every logged cell is read back through the real
// query pipeline.
//
// Every message writes 1 into 1-3 cells (series, slot) of a sum field that no other message touches:
// a cell reads 1 = applied once, nothing = lost, 2 = applied twice.

type c07msg struct {
	cells []int
	acked bool // WriteLog returned before the process died
}

type c07 struct {
	c      *core.RunCtx
	sim    *simrt.Sim
	db     string
	msgs   []*c07msg
	ncells int
	nser   int
	hist   bool // every third row also carries a histogram

	// incarnation state
	inc      int
	dead     bool
	node     *Node
	walMgr   replica.WriteAheadLogManager
	part     replica.Partition
	cancel   context.CancelFunc
	armed    bool
	garbage  map[int64]bool    // log sequences of undecodable entries
	part2    replica.Partition // the log of another leader of the same family, replicated to this node (nil = none)
	shutting bool              // a clean shutdown is in progress (overlap mode)
	ioArmed  bool              // I/O errors may be injected (inside flush operations)
	crashFS  float64
	crashY   float64
	starting bool    // the log side of the node is starting (crash_start_pm applies)
	crashS   float64 // process death per function entry while starting
}

const c07Leader = models.NodeID(1)
const c07Leader2 = models.NodeID(2) // another leader of the same family whose log is replicated to this node

func genC07(rng *rand.Rand, tier string) *core.Plan {
	p := &core.Plan{Harness: "node", Prop: "C07", Cfg: map[string]int{}}
	p.Cfg["preempt_pm"] = []int{0, 2, 10, 30}[rng.Intn(4)]
	p.Cfg["switch_pm"] = []int{50, 300, 600}[rng.Intn(3)]
	p.Cfg["max_steps"] = 6000000
	p.Cfg["procs"] = rng.Intn(2)
	p.Cfg["nseries"] = 2 + rng.Intn(4)
	p.Cfg["crash_fs_pm"] = []int{0, 5, 20, 60}[rng.Intn(4)]  // per file-system operation, while armed
	p.Cfg["crash_y_pm10"] = []int{0, 2, 10, 40}[rng.Intn(4)] // per 10000 function entries, while armed
	overlap := rng.Intn(3) == 0                              // clean shutdowns do not wait for a running flush job
	other := rng.Intn(2) == 0                                // the node also holds the log of another leader of the family
	if rng.Intn(4) == 0 {
		p.Cfg["ioerr_pm"] = []int{100, 300, 1000}[rng.Intn(3)] // table writes of the metadata store may fail inside flush jobs
		p.Cfg["ioerr_max"] = 1 + rng.Intn(2)
	}
	if other {
		p.Cfg["other_leader"] = 1
	}
	n := 5 + rng.Intn(12)
	for i := 0; i < n; i++ {
		switch r := rng.Intn(100); {
		case r < 4:
			p.Ops = append(p.Ops, core.Op{K: "garbage"}) // a log entry that cannot be decoded (skipped by the replicator)
		case r < 40:
			ap := core.Op{K: "append", A: int64(1 + rng.Intn(3)), B: int64(1 + rng.Intn(3))} // A messages of B rows
			if other && rng.Intn(3) == 0 {
				ap.C = 1
			}
			p.Ops = append(p.Ops, ap)
		case r < 60:
			p.Ops = append(p.Ops, core.Op{K: "flush"}) // request a flush job, do not wait
		case r < 68:
			p.Ops = append(p.Ops, core.Op{K: "flushwait"})
		case r < 76:
			p.Ops = append(p.Ops, core.Op{K: "gc"})
		case r < 84:
			p.Ops = append(p.Ops, core.Op{K: "tick", A: int64(1 + rng.Intn(5))}) // let background work run
		case r < 92:
			p.Ops = append(p.Ops, core.Op{K: "check"})
		default:
			if overlap {
				p.Ops = append(p.Ops, core.Op{K: "append", A: 1, B: int64(1 + rng.Intn(3))}, core.Op{K: "flush"})
				if rng.Intn(3) == 0 {
					p.Ops = append(p.Ops, core.Op{K: "tick", A: 1})
				}
			}
			p.Ops = append(p.Ops, core.Op{K: "restart"}) // clean shutdown + start
		}
	}
	if overlap {
		p.Cfg["overlap_close"] = 1
		// SIGTERM right after new rows and a flush request: the flush job switches the index while the rows are
		// still on their way to it
		for k := 1 + rng.Intn(2); k > 0; k-- {
			at := rng.Intn(len(p.Ops) + 1)
			mac := []core.Op{{K: "append", A: 1, B: int64(1 + rng.Intn(3))}, {K: "flush"}, {K: "restart"}}
			p.Ops = append(p.Ops[:at], append(mac, p.Ops[at:]...)...)
		}
	}
	if rng.Intn(4) == 0 {
		// late data of a family that leaves the writable range: more than a day passes (the log manager's
		// housekeeping runs every hour and may destroy the expired partition's log), then the process dies.
		// The memory database's time to live is longer, so nothing is flushed by age meanwhile.
		p.Cfg["memdb_ttl_s"] = 400000
		if rng.Intn(2) == 0 {
			// ... or goes on: the database accepts data that is up to three days late (option behind = 3d, ahead = 1h),
			// so rows of the same family keep coming after a day without any - through the log of that family, as before
			p.Cfg["late_writes"] = 1
			p.Ops = append(p.Ops, core.Op{K: "append", A: 2, B: 2}, core.Op{K: "flushwait"}, core.Op{K: "late"},
				core.Op{K: "append", A: int64(1 + rng.Intn(3)), B: 2}, core.Op{K: "flushwait"}, core.Op{K: "check"})
			if rng.Intn(2) == 0 {
				p.Ops = append(p.Ops, core.Op{K: "restart"}, core.Op{K: "check"})
			}
			return p
		}
		p.Ops = append(p.Ops, core.Op{K: "append", A: 2, B: 2}, core.Op{K: "expire"})
		return p
	}
	p.Ops = append(p.Ops, core.Op{K: "flushwait"}, core.Op{K: "gc"}, core.Op{K: "append", A: 1, B: 1}, core.Op{K: "check"})
	p.Cfg["maporder"] = rng.Intn(2) // tape-chosen iteration order of Go maps in the code under test
	core.GenZone(p, rng.Intn)       // the node's local time zone
	p.Cfg["hist"] = rng.Intn(2)     // every third row also carries a histogram
	if rng.Intn(4) == 0 {
		// the process may also die while it starts: while the log manager recovers, the partition of the family is
		// created or reopened (queue, consumer group of the local replicator) and the replicator is built -
		// per 1000 function entries of that phase
		p.Cfg["crash_start_pm"] = []int{1, 2, 6}[rng.Intn(3)]
	}
	return p
}

func (h *c07) cellSeries(n int) string { return fmt.Sprintf("s%02d", n%h.nser) }

// message builds the log message (snappy block of flat metric rows) of the next cells.
func (h *c07) message(nrows int) ([]byte, *c07msg, error) {
	m := &c07msg{}
	w := compress.NewSnappyWriter()
	for i := 0; i < nrows; i++ {
		n := h.ncells
		h.ncells++
		m.cells = append(m.cells, n)
		pt := rows.Point{Name: "m", Tags: map[string]string{"id": h.cellSeries(n), "host": "h" + fmt.Sprint(n%2)},
			Timestamp: Jan1 + int64(n)*10000 + int64(n%3)*3000,
			Fields:    []rows.Field{{Name: "fsum", Type: protoMetricsV1.SimpleFieldType_DELTA_SUM, Value: 1}}}
		if h.hist && n%3 == 0 {
			// the row also carries a histogram (eight more fields of the metric): its count must be applied exactly
			// as often as the row's sum field
			pt.Hist = &rows.Hist{Bounds: []float64{1, 5, 10, math.Inf(1)}, Values: []float64{1, 0, 2, 1}, Min: 0, Max: 1, Sum: 1, Count: 1}
		}
		blk, err := rows.Block(pt)
		if err != nil {
			return nil, nil, err
		}
		if _, err := w.Write(blk); err != nil {
			return nil, nil, err
		}
	}
	if err := w.Close(); err != nil {
		return nil, nil, err
	}
	return append([]byte(nil), w.Bytes()...), m, nil
}

// start opens engine and log manager on the directory and runs the real recovery.
func (h *c07) start(first bool) bool {
	c := h.c
	tsdb.VerifResetPoolGauges(h.db) // process-wide gauges: a new process starts at zero
	n, err := Start(c, c.Dir)
	if err != nil {
		c.Violate("C07/reopen-failed", "engine start: %v", err)
		return false
	}
	h.node = n
	if first {
		if err := n.CreateDB(h.db, 1); err != nil {
			c.Anomaly("create db: %v", err)
			return false
		}
	}
	ctx, cancel := context.WithCancel(context.Background())
	h.cancel = cancel
	wcfg := config.WAL{Dir: filepath.Join(c.Dir, "wal"), PageSize: ltoml.Size(1 << 20), RemoveTaskInterval: ltoml.Duration(time.Hour)}
	h.walMgr = replica.NewWriteAheadLogManager(ctx, wcfg, c07Leader, n.Engine, nil, nil)
	h.starting = true
	defer func() { h.starting = false }()
	if err := h.walMgr.Recovery(); err != nil {
		c.Violate("C07/reopen-failed", "log recovery: %v", err)
		return false
	}
	p, err := h.walMgr.GetOrCreateLog(h.db).GetOrCreatePartition(0, Jan1, c07Leader)
	if err != nil {
		c.Violate("C07/reopen-failed", "partition: %v", err)
		return false
	}
	if err := p.BuildReplicaForLeader(c07Leader, []models.NodeID{c07Leader}); err != nil {
		c.Violate("C07/reopen-failed", "build replica: %v", err)
		return false
	}
	h.part = p
	h.part2 = nil
	h.starting = false
	if c.Plan.C("other_leader", 0) == 1 {
		// as the replica handler does when the stream of that leader opens
		p2, err := h.walMgr.GetOrCreateLog(h.db).GetOrCreatePartition(0, Jan1, c07Leader2)
		if err != nil {
			c.Violate("C07/reopen-failed", "partition of the other leader: %v", err)
			return false
		}
		if err := p2.BuildReplicaForFollower(c07Leader2, c07Leader); err != nil {
			c.Violate("C07/reopen-failed", "build replica for the other leader's log: %v", err)
			return false
		}
		h.part2 = p2
	}
	if !first {
		// nothing was flushed since the start: the log's acknowledged position must not be ahead of the
		// sequence stored with the flushed data
		rep := replica.VerifReplicators(p)[int(c07Leader)]
		persisted := h.persistedOf(c07Leader)
		// an undecodable entry right behind the stored sequence has nothing to store: skipping it may acknowledge it
		for h.garbage[persisted+1] {
			persisted++
		}
		if rep != nil && rep.AckIndex() > persisted {
			c.Violate("C07/ack-ahead-of-stored-sequence", "after recovery the log is acknowledged up to %d, the sequence stored with the flushed data is %d", rep.AckIndex(), persisted)
			return false
		}
		if h.part2 != nil {
			rep2 := replica.VerifReplicators(h.part2)[int(c07Leader)]
			if p2 := h.persistedOf(c07Leader2); rep2 != nil && rep2.AckIndex() > p2 {
				c.Violate("C07/ack-ahead-of-stored-sequence", "after recovery the log of the other leader is acknowledged up to %d, the sequence stored for that leader with the flushed data is %d", rep2.AckIndex(), p2)
				return false
			}
		}
	}
	return true
}

func (h *c07) family() tsdb.DataFamily {
	shard, ok := h.node.Engine.GetShard(h.db, 0)
	if !ok {
		return nil
	}
	f, err := shard.GetOrCrateDataFamily(Jan1)
	if err != nil {
		return nil
	}
	return f
}

func (h *c07) persisted() int64 { return h.persistedOf(c07Leader) }
func (h *c07) applied() int64   { return h.appliedOf(c07Leader) }

func (h *c07) persistedOf(leader models.NodeID) int64 {
	f := h.family()
	if f == nil {
		return -1
	}
	if s, ok := f.GetState().AckSequences[int32(leader)]; ok {
		return s
	}
	return -1
}

func (h *c07) appliedOf(leader models.NodeID) int64 {
	f := h.family()
	if f == nil {
		return -1
	}
	if s, ok := f.GetState().ReplicaSequences[int32(leader)]; ok {
		return s
	}
	return -1
}

// catchUp waits until the local replicator has applied every appended message.
func (h *c07) catchUp() bool {
	log := replica.VerifPartitionLog(h.part)
	for i := 0; i < 3000 && !h.dead; i++ {
		appended := log.Queue().AppendedSeq()
		for h.garbage[appended] {
			appended-- // skipped entries are never applied
		}
		rep := replica.VerifReplicators(h.part)[int(c07Leader)]
		ok2 := true
		if h.part2 != nil {
			app2 := replica.VerifPartitionLog(h.part2).Queue().AppendedSeq()
			rep2 := replica.VerifReplicators(h.part2)[int(c07Leader)]
			ok2 = app2 < 0 || (rep2 != nil && rep2.Pending() == 0 && h.appliedOf(c07Leader2) >= app2)
		}
		if ok2 && (appended < 0 || (rep != nil && rep.Pending() == 0 && h.applied() >= appended)) {
			return true
		}
		simrt.Sleep(time.Millisecond)
	}
	return false
}

func (h *c07) waitFlush() {
	for i := 0; i < 3000 && !h.dead; i++ {
		if tsdb.VerifFlushInFlight(h.node.Engine) == 0 {
			return
		}
		simrt.Sleep(time.Millisecond)
	}
}

// check reads every cell back through the query pipeline.
func (h *c07) check(when string) {
	c := h.c
	if !h.catchUp() {
		if !h.dead {
			c.Anomaly("%s: the local replicator did not catch up", when)
		}
		return
	}
	if len(h.msgs) == 0 {
		return
	}
	armed := h.armed
	h.armed = false // the read-back is the oracle, not the system under test
	defer func() { h.armed = armed }()
	all := [][]int{{0}}
	c.Sim.Event("  check %s at %v", when, c.Sim.Elapsed())
	cols := "fsum"
	if h.hist {
		cols = "fsum,HistogramCount"
	}
	rs, err := h.node.Query(h.db, "select "+cols+" from m where time>='"+fmtTime(Jan1)+"' and time<='"+fmtTime(Jan1+3599000)+"' group by id,time(10s)", Layout{Leaves: all})
	c.Oracle()
	got := map[int]float64{}
	if err != nil {
		if !strings.Contains(err.Error(), "not found") {
			if os.Getenv("VERIF_TRACE") != "" {
				c.Sim.Event("  at %v tasks: %s", c.Sim.Elapsed(), c.Sim.TaskDump())
			}
			c.Violate("C07/query-failed", "%s: %v", when, err)
			return
		}
	} else {
		for _, s := range rs.Series {
			for ts, v := range s.Fields["fsum"] {
				n := int((ts - Jan1) / 10000)
				if n < 0 || n >= h.ncells || h.cellSeries(n) != s.Tags["id"] {
					c.Violate("C07/unknown-cell", "%s: series %v has value %v at slot %d which no message wrote", when, s.Tags, v, n)
					return
				}
				got[n] = v
			}
		}
		// the fields of one row are applied together: the histogram count of a cell reads what its sum field reads
		for _, s := range rs.Series {
			if !h.hist {
				break
			}
			hc := s.Fields["HistogramCount"]
			for ts, v := range s.Fields["fsum"] {
				n := int((ts - Jan1) / 10000)
				if n%3 == 0 && hc[ts] != v {
					c.Violate("C07/fields-of-one-row-differ", "%s: cell %d (series %v): fsum reads %v, HistogramCount of the same row reads %v", when, n, s.Tags, v, hc[ts])
					return
				}
			}
			for ts, v := range hc {
				n := int((ts - Jan1) / 10000)
				if n < 0 || n >= h.ncells || n%3 != 0 || s.Fields["fsum"][ts] != v {
					c.Violate("C07/fields-of-one-row-differ", "%s: cell %d (series %v): HistogramCount reads %v, fsum of the same row reads %v", when, n, s.Tags, v, s.Fields["fsum"][ts])
					return
				}
			}
			c.Sim.Probe("histogram-cells-checked")
		}
	}
	dump := func() {
		if os.Getenv("VERIF_TRACE") != "" {
			c.Sim.Event("  read back %d cells of %d: %v; applied=%d persisted=%d appended=%d", len(got), h.ncells, got, h.applied(), h.persisted(), replica.VerifPartitionLog(h.part).Queue().AppendedSeq())
			if rs != nil {
				for _, s := range rs.Series {
					c.Sim.Event("  series %v: %v", s.Tags, s.Fields["fsum"])
				}
			}
			rs2, err2 := h.node.Query(h.db, "select fsum from m where time>='"+fmtTime(Jan1)+"' and time<='"+fmtTime(Jan1+3599000)+"' group by id", Layout{Leaves: all})
			if rs2 != nil {
				for _, s := range rs2.Series {
					c.Sim.Event("  (no time grouping) series %v: %v", s.Tags, s.Fields["fsum"])
				}
			}
			c.Sim.Event("  (no time grouping) err=%v; family state %+v", err2, h.family().GetState())
			(&run{c: c, n: h.node, db: h.db, shards: 1}).dumpIndex()
		}
	}
	for i, m := range h.msgs {
		for _, n := range m.cells {
			v, ok := got[n]
			switch {
			case ok && v > 1:
				c.Violate("C07/applied-twice", "%s: message %d (cell %d, series %s) reads %v: it was applied %v times", when, i, n, h.cellSeries(n), v, v)
				dump() // post mortem only: tracing must not change the run before the verdict
				return
			case !ok && m.acked:
				c.Violate("C07/logged-write-lost", "%s: message %d (cell %d, series %s) was appended to the log before the crash and is neither in the flushed data nor replayed", when, i, n, h.cellSeries(n))
				dump() // post mortem only: tracing must not change the run before the verdict
				return
			case ok && v != 1:
				c.Violate("C07/value-wrong", "%s: message %d cell %d reads %v", when, i, n, v)
				dump() // post mortem only: tracing must not change the run before the verdict
				return
			}
		}
	}
	c.Sim.Probe("cells-checked")
}

func (h *c07) crashNow(what string) {
	if h.dead {
		return
	}
	h.dead = true
	h.sim.Fault("crash@" + what)
	h.sim.Event("process death at %s", what)
	h.sim.Kill(h.inc)
}

func runC07(c *core.RunCtx) {
	sim := c.Sim
	h := &c07{c: c, sim: sim, db: "w" + NewTag(c), nser: c.Plan.C("nseries", 3), hist: c.Plan.C("hist", 0) == 1, garbage: map[int64]bool{},
		crashFS: float64(c.Plan.C("crash_fs_pm", 0)) / 1000, crashY: float64(c.Plan.C("crash_y_pm10", 0)) / 10000,
		crashS: float64(c.Plan.C("crash_start_pm", 0)) / 1000}
	pre := func(op, path string) {
		if !h.armed || h.dead || sim.CurInc() != h.inc {
			return
		}
		if sim.Tape.Chance(h.crashFS) {
			sim.Event("file-system operation %s %s", op, strings.TrimPrefix(path, c.Dir))
			h.crashNow("fs-" + op)
		}
	}
	kv.VerifSetFS(pre)
	version.VerifSetFS(pre)
	table.VerifSetFS(pre)
	if pm := c.Plan.C("ioerr_pm", 0); pm > 0 {
		// a table write of the metadata store fails with an I/O error while a flush job runs (disk full): the job
		// reports it and stops; nothing may be persisted that depends on what that flush was about to persist
		left := c.Plan.C("ioerr_max", 1)
		table.VerifSetFSFail(func(op, path string) error {
			if !h.ioArmed || left == 0 || h.dead || sim.CurInc() != h.inc || !(op == "write" || op == "sync" || op == "flush") || !strings.Contains(path, "/meta/") {
				return nil
			}
			if !sim.Tape.Chance(float64(pm) / 1000) {
				return nil
			}
			left--
			sim.Fault("io-error@meta-" + op)
			sim.Event("injected I/O error at %s %s", op, strings.TrimPrefix(path, c.Dir))
			return fmt.Errorf("%s: injected: no space left on device", op)
		})
	}
	sim.OnYield = func(label string) {
		if h.starting && !h.dead && h.crashS > 0 && sim.CurInc() == h.inc {
			if sim.Tape.Chance(h.crashS) {
				h.crashNow("start")
			}
			return
		}
		if !h.armed || h.dead || h.crashY == 0 || sim.CurInc() != h.inc {
			return
		}
		pkg := label
		if i := strings.IndexByte(label, '.'); i > 0 {
			pkg = label[:i]
		}
		switch pkg {
		case "queue", "page", "replica", "tsdb", "memdb", "kv", "version", "index":
		default:
			return
		}
		p := h.crashY
		if strings.Contains(label, "Ack") || strings.Contains(label, "Commit") || strings.Contains(label, "flushMemoryDatabase") || strings.Contains(label, "Sequence") {
			p *= 20 // the order of commit, sequence record and acknowledgement is what the property is about
		}
		if sim.Tape.Chance(p) {
			h.crashNow(pkg)
		}
	}
	sim.OnPanic = func(task string, inc int, msg string) bool {
		if !h.shutting || inc != h.inc || h.dead {
			return false
		}
		sim.Fault("shutdown-panic")
		sim.Event("unrecovered panic of %s during shutdown = process death: %s", task, msg)
		h.dead = true
		sim.KillOthers(inc)
		return true
	}
	defer func() {
		kv.VerifSetFS(nil)
		version.VerifSetFS(nil)
		table.VerifSetFS(nil)
		table.VerifSetFSFail(nil)
		sim.OnYield = nil
		sim.OnPanic = nil
	}()

	next := 0
	for incarnation := 0; incarnation < 6 && !c.Violated() && c.Res.Anomaly == ""; incarnation++ {
		h.inc = sim.NewIncarnation()
		h.dead = false
		h.armed = false
		finished := false
		first := incarnation == 0
		sim.SpawnIn(h.inc, fmt.Sprintf("node%d", incarnation), func() {
			defer func() { finished = true }()
			if !h.start(first) {
				return
			}
			if !first {
				h.check("after recovery")
			}
			for next < len(c.Plan.Ops) && !c.Violated() && c.Res.Anomaly == "" && !h.dead {
				op := c.Plan.Ops[next]
				next++
				sim.Event("op %s", op.String())
				h.armed = true
				switch op.K {
				case "append":
					for i := int64(0); i < op.A && !h.dead; i++ {
						b, m, err := h.message(int(op.B))
						if err != nil {
							c.Anomaly("message: %v", err)
							return
						}
						h.msgs = append(h.msgs, m)
						if op.C == 1 && h.part2 != nil {
							// an entry of the other leader's log, as its replica stream delivers it
							idx := replica.VerifPartitionLog(h.part2).Queue().AppendedSeq() + 1
							got, err := h.part2.ReplicaLog(idx, b)
							if err != nil || got != idx {
								c.Anomaly("ReplicaLog(%d): %d %v", idx, got, err)
								return
							}
							sim.Probe("entry-of-another-leader")
						} else if err := h.part.WriteLog(b); err != nil {
							c.Anomaly("WriteLog: %v", err)
							return
						}
						m.acked = true
					}
				case "garbage":
					// bytes that are no snappy block: the local replicator cannot decode the entry and skips it
					// (the process does not die inside this append, so the entry's sequence is known)
					h.armed = false
					sim.Fault("undecodable-log-entry")
					if err := h.part.WriteLog([]byte{0xff, 0xff, 0xff, 0xff, 0xff, 0xff, 0xff, 0xff, 0xff, 0xff, 0xff, 0x01}); err != nil {
						c.Anomaly("WriteLog: %v", err)
						return
					}
					h.garbage[replica.VerifPartitionLog(h.part).Queue().AppendedSeq()] = true
				case "flush":
					if db, ok := h.node.Engine.GetDatabase(h.db); ok {
						sim.Fault("flush-request")
						h.ioArmed = true
						_ = db.Flush()
					}
				case "flushwait":
					if db, ok := h.node.Engine.GetDatabase(h.db); ok {
						sim.Fault("flush-request")
						h.ioArmed = true
						_ = db.Flush()
						simrt.Sleep(time.Millisecond)
						h.waitFlush()
						h.ioArmed = false
					}
				case "gc":
					sim.Fault("log-gc")
					h.part.IsExpire() // Sync + GC of the log, as the manager's housekeeping task does
					if h.part2 != nil {
						h.part2.IsExpire()
					}
				case "tick":
					simrt.Sleep(time.Duration(op.A) * time.Millisecond)
				case "late":
					// a day without writes; the next batch of the family finds (or creates) its log the way every write
					// of the broker's write path does
					h.armed = false
					if !h.catchUp() {
						return
					}
					sim.Fault("late-writes-after-a-day")
					simrt.Sleep(26 * time.Hour)
					p, err := h.walMgr.GetOrCreateLog(h.db).GetOrCreatePartition(0, Jan1, c07Leader)
					if err != nil {
						c.Anomaly("partition after a day: %v", err)
						return
					}
					if err := p.BuildReplicaForLeader(c07Leader, []models.NodeID{c07Leader}); err != nil {
						c.Anomaly("build replica after a day: %v", err)
						return
					}
					if p != h.part {
						sim.Probe("log-of-the-family-created-again")
					}
					h.part = p
				case "expire":
					h.armed = false
					if !h.catchUp() {
						return
					}
					sim.Fault("family-expired")
					simrt.Sleep(26 * time.Hour)
					h.crashNow("idle-after-expiry") // the next incarnation recovers and reads everything back
				case "check":
					h.ioArmed = false
					h.check("after " + op.String())
				case "restart":
					// clean shutdown in the order of the storage runtime: stop replication, close engine, close log
					h.armed = false
					h.ioArmed = false
					sim.Fault("clean-restart")
					// a shutdown that overlaps a running flush job is not what this property is about (and it
					// can hang: dataFamily.Close waits for the flush while holding the lock the flush needs)
					if c.Plan.C("overlap_close", 0) == 0 {
						h.waitFlush()
						h.walMgr.Stop()
						h.node.Engine.Close()
						_ = h.walMgr.Close()
					} else {
						// SIGTERM whenever it comes, also while a flush job runs. lindb can hang there (see above) or
						// panic (overlapping metadata flushes); a shutdown that hangs for two simulated minutes is
						// killed by the operator and an unrecovered panic ends the process: both are process deaths,
						// and recovery has to cope with what they leave behind
						if tsdb.VerifFlushInFlight(h.node.Engine) > 0 {
							sim.Fault("shutdown-during-flush")
						}
						done := false
						h.shutting = true
						sim.SpawnIn(h.inc, "shutdown", func() {
							h.walMgr.Stop()
							h.node.Engine.Close()
							_ = h.walMgr.Close()
							done = true
						})
						t0 := sim.Elapsed()
						sim.Await(func() bool { return done || h.dead || sim.Elapsed()-t0 > 2*time.Minute })
						h.shutting = false
						if !done {
							if !h.dead {
								sim.Fault("shutdown-hung")
								h.crashNow("hung-shutdown")
							}
							return
						}
					}
					h.cancel()
					if !h.start(false) {
						return
					}
					h.check("after clean restart")
				}
				h.armed = false
			}
			if !h.dead && !c.Violated() && c.Res.Anomaly == "" {
				h.check("at the end")
			}
		})
		sim.Await(func() bool { return finished || h.dead })
		if !h.dead {
			break
		}
		if h.cancel != nil {
			h.cancel()
		}
		simrt.Sleep(time.Millisecond)
	}
}
