package node

import (
	"math/rand"

	"verifsim/core"
)

func genC07(rng *rand.Rand, tier string) *core.Plan {
	return &core.Plan{Harness: "node", Prop: "C07", Cfg: map[string]int{}}
}
func runC07(c *core.RunCtx) {}
