package node

import (
	"sort"

	"github.com/lindb/lindb/models"
	"github.com/lindb/lindb/series/tag"
)

// dumpIndex writes what the metadata and index databases answer for every tag key/value of the metric
// into the trace (VERIF_TRACE only; debugging aid, not part of any oracle).
func (r *run) dumpIndex() {
	c := r.c
	db, ok := r.n.Engine.GetDatabase(r.db)
	if !ok {
		return
	}
	mid, err := db.MetaDB().GetMetricID("default-ns", "m")
	if err != nil {
		c.Sim.Event("  index: metric id: %v", err)
		return
	}
	schema, err := db.MetaDB().GetSchema(mid)
	if err != nil || schema == nil {
		c.Sim.Event("  index: schema: %v", err)
		return
	}
	c.Sim.Event("  index: metric=%d tagKeys=%v fields=%v", mid, schema.TagKeys, schema.Fields)
	for _, tk := range schema.TagKeys {
		ids, err := db.MetaDB().FindTagValueIDsForTag(tk.ID)
		if err != nil {
			c.Sim.Event("  index: values of %s: %v", tk.Key, err)
			continue
		}
		vals := map[uint32]string{}
		_ = db.MetaDB().CollectTagValues(tk.ID, ids.Clone(), vals)
		var vids []uint32
		for id := range vals {
			vids = append(vids, id)
		}
		sort.Slice(vids, func(i, j int) bool { return vids[i] < vids[j] })
		c.Sim.Event("  index: key %s(%d) values %v (ids %v)", tk.Key, tk.ID, vals, ids.ToArray())
		for sh := 0; sh < r.shards; sh++ {
			shard, ok := db.GetShard(models.ShardID(sh))
			if !ok {
				continue
			}
			all, err := shard.IndexDB().GetSeriesIDsForTag(tag.KeyID(tk.ID))
			if err != nil {
				c.Sim.Event("  index: shard %d series for key %s: %v", sh, tk.Key, err)
			} else {
				c.Sim.Event("  index: shard %d series for key %s: %v", sh, tk.Key, all.ToArray())
			}
			for _, vid := range vids {
				bm := ids.Clone()
				bm.Clear()
				bm.Add(vid)
				sids, err := shard.IndexDB().GetSeriesIDsByTagValueIDs(tk.ID, bm)
				if err != nil {
					c.Sim.Event("  index: shard %d %s=%s: %v", sh, tk.Key, vals[vid], err)
				} else {
					c.Sim.Event("  index: shard %d %s=%s(%d): series %v", sh, tk.Key, vals[vid], vid, sids.ToArray())
				}
			}
		}
	}
	for sh := 0; sh < r.shards; sh++ {
		shard, ok := db.GetShard(models.ShardID(sh))
		if !ok {
			continue
		}
		all, err := shard.IndexDB().GetSeriesIDsForMetric(mid)
		if err != nil {
			c.Sim.Event("  index: shard %d series of metric: %v", sh, err)
		} else {
			c.Sim.Event("  index: shard %d series of metric: %v", sh, all.ToArray())
		}
	}
}
