// Package node assembles a real storage node (tsdb.Engine with its memdb workers,
// index and kv stores, flush checker, worker pools) and an in-process query
// cluster around it: real root search, real leaf / intermediate processors, fake
// transport whose response delivery order is a tape decision.
package node

import (
	"bytes"
	"context"
	"errors"
	"fmt"
	"os"
	"path/filepath"
	"sort"
	"strings"
	"time"

	commonmodels "github.com/lindb/common/models"
	"github.com/lindb/common/pkg/ltoml"
	"google.golang.org/grpc"

	"github.com/lindb/lindb/config"
	"github.com/lindb/lindb/coordinator/broker"
	"github.com/lindb/lindb/flow"
	"github.com/lindb/lindb/kv"
	"github.com/lindb/lindb/models"
	"github.com/lindb/lindb/pkg/option"
	"github.com/lindb/lindb/pkg/timeutil"
	protoCommonV1 "github.com/lindb/lindb/proto/gen/v1/common"
	"github.com/lindb/lindb/query"
	querycontext "github.com/lindb/lindb/query/context"
	"github.com/lindb/lindb/rpc"
	"github.com/lindb/lindb/series/metric"
	"github.com/lindb/lindb/sql"
	stmtpkg "github.com/lindb/lindb/sql/stmt"
	"github.com/lindb/lindb/tsdb"

	"verifsim/core"
	"verifsim/h/rows"
	"verifsim/simrt"
)

// Jan1 is the simulated "now" at the start of a run (the synctest epoch).
const Jan1 = int64(946684800000)

type Node struct {
	C      *core.RunCtx
	Sim    *simrt.Sim
	Dir    string
	Engine tsdb.Engine
	Opt    *option.DatabaseOption
	Tag    string // unique per run: worker pools and gauges are keyed by database name process-wide
}

// Start configures the process-wide storage settings for this run and opens an engine on dir.
func Start(c *core.RunCtx, dir string) (*Node, error) {
	cfg := config.NewDefaultStorageBase()
	cfg.TSDB.Dir = filepath.Join(dir, "data")
	cfg.WAL.Dir = filepath.Join(dir, "wal")
	cfg.WAL.RemoveTaskInterval = ltoml.Duration(time.Hour)
	cfg.TSDB.FlushConcurrency = 1
	cfg.TSDB.MutableMemDBTTL = ltoml.Duration(time.Duration(c.Plan.C("memdb_ttl_s", 1800)) * time.Second)
	cfg.TSDB.MaxMemUsageBeforeFlush = 2 // never flush because of the real machine's memory
	config.SetGlobalStorageConfig(cfg)
	kv.InitStoreManager(kv.VerifNewStoreManager())
	tsdb.VerifResetFamilyManager()
	simrt.Procs = 1 + c.Plan.C("procs", 1)
	e, err := tsdb.NewEngine()
	if err != nil {
		return nil, err
	}
	n := &Node{C: c, Sim: c.Sim, Dir: dir, Engine: e}
	n.Opt = &option.DatabaseOption{Intervals: option.Intervals{{Interval: timeutil.Interval(10 * 1000), Retention: timeutil.Interval(30 * 24 * 3600 * 1000)}}}
	if c.Plan.C("late_writes", 0) == 1 {
		// a database that accepts late data for three days and data from the future for an hour
		n.Opt.Ahead, n.Opt.Behind = "1h", "3d"
	}
	return n, nil
}

// NewTag returns a process-unique suffix for database names.
// The suffix is a function of the plan's seed, so that a plan gets the same names as the k-th run of a search
// process and as the only run of a replay process (names reach paths, sorted maps and trace digests); a seed
// met again in the same process (shrinking re-executes one plan many times) gets a numbered suffix, because
// lindb keeps process-wide state per database name.
func NewTag(c *core.RunCtx) string {
	n := tagSeen[c.Plan.Seed]
	tagSeen[c.Plan.Seed] = n + 1
	if n == 0 {
		return fmt.Sprintf("%x", c.Plan.Seed)
	}
	return fmt.Sprintf("%x-%d", c.Plan.Seed, n)
}

var tagSeen = map[int64]int{}

func (n *Node) CreateDB(name string, shards int) error {
	ids := make([]models.ShardID, shards)
	for i := range ids {
		ids[i] = models.ShardID(i)
	}
	return n.Engine.CreateShards(name, n.Opt, ids...)
}

// CreateDBShards creates a database holding the given shards only (the part of a database one storage node holds).
func (n *Node) CreateDBShards(name string, shards []int) error {
	ids := make([]models.ShardID, len(shards))
	for i, s := range shards {
		ids[i] = models.ShardID(s)
	}
	return n.Engine.CreateShards(name, n.Opt, ids...)
}

// Write writes points into one shard through the family write path (memdb + metadata/index workers).
func (n *Node) Write(db string, shardID int, pts []rows.Point) error {
	shard, ok := n.Engine.GetShard(db, models.ShardID(shardID))
	if !ok {
		return fmt.Errorf("shard %d of %s not found", shardID, db)
	}
	calc := n.Opt.Intervals[0].Interval.Calculator()
	byFamily := map[int64][][]byte{}
	var fams []int64
	for _, p := range pts {
		blk, err := rows.Block(p)
		if err != nil {
			return err
		}
		ft := calc.CalcFamilyTime(p.Timestamp)
		if _, ok := byFamily[ft]; !ok {
			fams = append(fams, ft)
		}
		byFamily[ft] = append(byFamily[ft], blk)
	}
	sort.Slice(fams, func(i, j int) bool { return fams[i] < fams[j] })
	for _, ft := range fams {
		family, err := shard.GetOrCrateDataFamily(ft)
		if err != nil {
			return err
		}
		if err := family.WriteRows(rows.StorageRows(byFamily[ft]...)); err != nil {
			return err
		}
	}
	return nil
}

// WriteRouted writes a batch the way a broker does: BrokerBatchRows -> shard group iterator (routing hash) ->
// family iterator -> one block per (shard, family) -> storage rows of that family.
func (n *Node) WriteRouted(db string, shards int, pts []rows.Point, own ...func(int) bool) error {
	batch := metric.NewBrokerBatchRows()
	defer batch.Release()
	for _, p := range pts {
		blk, err := rows.Block(p)
		if err != nil {
			return err
		}
		if err := batch.TryAppend(func(row *metric.BrokerRow) error {
			row.FromBlock(blk)
			return nil
		}); err != nil {
			return err
		}
	}
	interval := n.Opt.Intervals[0].Interval
	it := batch.NewShardGroupIterator(int32(shards))
	for it.HasRowsForNextShard() {
		shardIdx, famIt := it.FamilyRowsForNextShard(interval)
		if len(own) > 0 && !own[0](int(shardIdx)) {
			continue // the shard lives on another node
		}
		shard, ok := n.Engine.GetShard(db, models.ShardID(shardIdx))
		if !ok {
			return fmt.Errorf("shard %d of %s not found", shardIdx, db)
		}
		for famIt.HasNextFamily() {
			ft, frows := famIt.NextFamily()
			var buf bytes.Buffer
			for i := range frows {
				if _, err := frows[i].WriteTo(&buf); err != nil {
					return err
				}
			}
			family, err := shard.GetOrCrateDataFamily(ft)
			if err != nil {
				return err
			}
			if err := family.WriteRows(rows.StorageRows(buf.Bytes())); err != nil {
				return err
			}
		}
	}
	return nil
}

// ---- in-process query cluster ---------------------------------------------------------

// Layout of one query execution.
type Layout struct {
	Leaves       [][]int              // partition of shard ids over leaf nodes
	Intermediate bool                 // route through one intermediate (broker) node
	Delay        func() time.Duration // transit time of the next response (nil = none)
	// StrangerDB: one more leaf node which answers from this (never written) database whatever database the
	// request names: a node that has never seen the metric
	StrangerDB string
	// FailLeaf: one more leaf node whose task fails with a real error (not a "not found")
	FailLeaf bool
	// Track (C19): requests sent to and responses sent by every leaf are counted; Query returns only when every
	// leaf has answered (or two simulated minutes have passed) and its task context has expired
	Track *ReqTrack
	// LeafDB: leaf i answers from this database whatever database the request names (a storage node with its own
	// metadata: metric / field / tag key / tag value ids of its own); "" or missing = the named database
	LeafDB []string
}

// ReqTrack counts the messages of one request.
type ReqTrack struct {
	Requests  map[string]int // leaf -> requests received
	Responses map[string]int // leaf -> responses sent (whatever the receiver)
	Running   int            // leaf tasks still running
}

// aliasEngine answers every database lookup with one fixed database.
type aliasEngine struct {
	tsdb.Engine
	db string
}

func (e *aliasEngine) GetDatabase(string) (tsdb.Database, bool) { return e.Engine.GetDatabase(e.db) }
func (e *aliasEngine) GetShard(_ string, id models.ShardID) (tsdb.Shard, bool) {
	return e.Engine.GetShard(e.db, id)
}

type fakeTaskMgr struct {
	tasks map[string]querycontext.TaskContext
}

func (m *fakeTaskMgr) AddTask(id string, t querycontext.TaskContext) { m.tasks[id] = t }
func (m *fakeTaskMgr) RemoveTask(id string)                          { delete(m.tasks, id) }
func (m *fakeTaskMgr) Receive(resp *protoCommonV1.TaskResponse, from string) error {
	t := m.tasks[resp.RequestID]
	if t == nil {
		return errors.New("request may be evicted")
	}
	t.HandleResponse(resp, from)
	return nil
}

type fakeStateMgr struct {
	broker.StateManager // nil: only so that the root computes intervals as with the real chooser
	cfg                 models.Database
	choose              func(db string, n int) ([]*models.PhysicalPlan, error)
}

func (f *fakeStateMgr) Choose(db string, n int) ([]*models.PhysicalPlan, error) {
	return f.choose(db, n)
}
func (f *fakeStateMgr) GetDatabaseCfg(string) (models.Database, bool) { return f.cfg, true }

type pendingResp struct {
	resp *protoCommonV1.TaskResponse
	from string
	to   query.TaskManager
}

type fakeStream struct {
	grpc.ServerStream
	send func(*protoCommonV1.TaskResponse) error
}

func (s *fakeStream) Send(r *protoCommonV1.TaskResponse) error { return s.send(r) }
func (s *fakeStream) Context() context.Context                 { return context.Background() }
func (s *fakeStream) Recv() (*protoCommonV1.TaskRequest, error) {
	return nil, errors.New("not used")
}

type fakeTransport struct {
	send func(target string, req *protoCommonV1.TaskRequest) error
}

func (t *fakeTransport) SendRequest(target string, req *protoCommonV1.TaskRequest) error {
	return t.send(target, req)
}
func (t *fakeTransport) SendResponse(string, *protoCommonV1.TaskResponse) error {
	return errors.New("not used")
}

// Query runs sqlText end to end: real root MetricDataSearch -> (real intermediate) -> real leaf
// processors over the engine; responses are delivered to the receiver in the order lay.Order picks.
func (n *Node) Query(db, sqlText string, lay Layout) (*commonmodels.ResultSet, error) {
	sim := n.Sim
	st, err := sql.Parse(sqlText)
	if err != nil {
		return nil, fmt.Errorf("parse: %w", err)
	}
	q, ok := st.(*stmtpkg.Query)
	meta, isMeta := st.(*stmtpkg.MetricMetadata)
	if !ok && !isMeta {
		return nil, fmt.Errorf("not a query statement")
	}
	root := models.StatelessNode{HostIP: "1.1.1.1", GRPCPort: 9000}
	brokerNode := models.StatelessNode{HostIP: "1.1.1.2", GRPCPort: 9000}
	var rootMgr, brokerMgr query.TaskManager = &fakeTaskMgr{tasks: map[string]querycontext.TaskContext{}}, &fakeTaskMgr{tasks: map[string]querycontext.TaskContext{}}
	if n.C.Plan.C("realmgr", 0) == 1 {
		// lindb's own task manager on a real worker pool (as the broker runtime wires them): responses are handed to
		// pool workers, which handle them concurrently
		workers := 1 + n.C.Plan.C("mgrworkers", 1)
		var stopRoot, stopBroker func()
		rootMgr, stopRoot = query.VerifNewTaskManager("root-"+NewTag(n.C), workers, time.Minute)
		brokerMgr, stopBroker = query.VerifNewTaskManager("broker-"+NewTag(n.C), workers, time.Minute)
		defer stopRoot()
		defer stopBroker()
		sim.Probe("real-task-manager")
	}
	var deliver func(p *pendingResp)
	processors := map[string]query.TaskProcessor{}
	var leafTargets []*models.Target
	leaves := lay.Leaves
	if lay.StrangerDB != "" {
		leaves = append(append([][]int{}, leaves...), []int{0})
	}
	for i, shards := range leaves {
		ln := &models.StatelessNode{HostIP: fmt.Sprintf("2.2.2.%d", i+1), GRPCPort: 9100}
		fct := rpc.NewTaskServerFactory()
		me := ln.Indicator()
		for _, recv := range []struct {
			node string
			mgr  query.TaskManager
		}{{root.Indicator(), rootMgr}, {brokerNode.Indicator(), brokerMgr}} {
			recv := recv
			fct.Register(recv.node, &fakeStream{send: func(r *protoCommonV1.TaskResponse) error {
				deliver(&pendingResp{resp: r, from: me, to: recv.mgr})
				return nil
			}})
		}
		var eng tsdb.Engine = n.Engine
		if lay.StrangerDB != "" && i == len(leaves)-1 {
			eng = &aliasEngine{Engine: n.Engine, db: lay.StrangerDB}
		} else if i < len(lay.LeafDB) && lay.LeafDB[i] != "" {
			eng = &aliasEngine{Engine: n.Engine, db: lay.LeafDB[i]}
		}
		processors[me] = query.NewLeafTaskProcessor(ln, eng, fct)
		t := &models.Target{Indicator: me}
		for _, s := range shards {
			t.ShardIDs = append(t.ShardIDs, models.ShardID(s))
		}
		leafTargets = append(leafTargets, t)
	}
	failing := ""
	if lay.FailLeaf {
		failing = fmt.Sprintf("2.2.3.%d:9100", 1)
		leafTargets = append(leafTargets, &models.Target{Indicator: failing, ShardIDs: []models.ShardID{0}})
	}
	leafPlan := func(database string) []*models.PhysicalPlan {
		return []*models.PhysicalPlan{{Database: database, Targets: leafTargets}}
	}
	dbCfg := models.Database{Name: db, Option: n.Opt}
	leafChooser := &fakeStateMgr{cfg: dbCfg, choose: func(database string, _ int) ([]*models.PhysicalPlan, error) {
		return leafPlan(database), nil
	}}
	var transport *fakeTransport
	transport = &fakeTransport{send: func(target string, req *protoCommonV1.TaskRequest) error {
		tc := flow.NewTaskContextWithTimeout(context.Background(), time.Minute)
		if target == brokerNode.Indicator() {
			ip := query.NewIntermediateTaskProcessor(brokerNode, time.Minute, leafChooser, brokerMgr, transport)
			sim.Probe("intermediate-node-used")
			sim.Spawn("intermediate", func() {
				stream := &fakeStream{send: func(r *protoCommonV1.TaskResponse) error {
					deliver(&pendingResp{resp: r, from: brokerNode.Indicator(), to: rootMgr})
					return nil
				}}
				if err := ip.Process(tc, stream, req); err != nil {
					deliver(&pendingResp{resp: &protoCommonV1.TaskResponse{RequestID: req.RequestID, Completed: true, ErrMsg: err.Error()}, from: brokerNode.Indicator(), to: rootMgr})
				}
			})
			return nil
		}
		to := rootMgr
		if lay.Intermediate {
			to = brokerMgr
		}
		if target == failing && failing != "" {
			sim.Spawn("leaf", func() {
				sim.YieldNow()
				deliver(&pendingResp{resp: &protoCommonV1.TaskResponse{RequestID: req.RequestID, RequestType: req.RequestType, Completed: true,
					ErrMsg: "injected: storage of this leaf failed"}, from: target, to: to})
			})
			return nil
		}
		p := processors[target]
		if p == nil {
			return fmt.Errorf("unknown target %s", target)
		}
		if lay.Track != nil {
			lay.Track.Requests[target]++
			lay.Track.Running++
		}
		sim.Spawn("leaf", func() {
			// the request stream: metadata requests are answered on it, and - as TaskHandler.process does - an
			// error of Process
			stream := &fakeStream{send: func(r *protoCommonV1.TaskResponse) error {
				deliver(&pendingResp{resp: r, from: target, to: to})
				return nil
			}}
			if err := p.Process(tc, stream, req); err != nil {
				deliver(&pendingResp{resp: &protoCommonV1.TaskResponse{RequestID: req.RequestID, RequestType: req.RequestType, Completed: true, ErrMsg: err.Error()}, from: target, to: to})
			}
			if lay.Track != nil {
				lay.Track.Running--
			}
		})
		return nil
	}}
	chooser := leafChooser
	if lay.Intermediate {
		chooser = &fakeStateMgr{cfg: dbCfg, choose: func(database string, _ int) ([]*models.PhysicalPlan, error) {
			return []*models.PhysicalPlan{{Database: database, Targets: []*models.Target{{Indicator: brokerNode.Indicator()}}}}, nil
		}}
	}
	// delivery: every response travels in its own task, which sleeps a tape-chosen time and then hands the
	// response to the receiver: arrival order and the interleaving of arrivals with nodes that are still
	// working are decisions of the tape and the scheduler
	stop := false
	deliver = func(p *pendingResp) {
		if lay.Track != nil && strings.HasPrefix(p.from, "2.2.") {
			lay.Track.Responses[p.from]++
		}
		d := time.Duration(0)
		if lay.Delay != nil {
			d = lay.Delay()
		}
		sim.Spawn("deliver", func() {
			if d > 0 {
				simrt.Sleep(d)
			}
			if stop {
				return
			}
			sim.Event("deliver response from %s err=%q", p.from, p.resp.ErrMsg)
			if os.Getenv("VERIF_TRACE") != "" && len(p.resp.Payload) > 0 {
				tsList := &protoCommonV1.TimeSeriesList{}
				if err := tsList.Unmarshal(p.resp.Payload); err == nil {
					sim.Event("  payload: start=%d end=%d interval=%d series=%d", tsList.Start, tsList.End, tsList.Interval, len(tsList.TimeSeriesList))
					for _, ts := range tsList.TimeSeriesList {
						var names []string
						for name := range ts.Fields {
							names = append(names, name)
						}
						sort.Strings(names)
						for _, name := range names {
							sim.Event("    series tags=%q field=%s bytes=%d", ts.Tags, name, len(ts.Fields[name]))
						}
					}
				}
			}
			_ = p.to.Receive(p.resp, p.from)
		})
	}
	defer func() { stop = true }()
	ctx, cancel := context.WithTimeout(context.Background(), 30*time.Second)
	defer cancel()
	if lay.Track != nil {
		// the caller judges the counts: every leaf task must have ended (a leaf answers at the latest when its
		// task context expires, one minute after the request)
		defer func() {
			answered := func() bool {
				for leaf := range lay.Track.Requests {
					if lay.Track.Responses[leaf] == 0 {
						return false
					}
				}
				return lay.Track.Running == 0
			}
			for i := 0; i < 1250 && !answered(); i++ {
				simrt.Sleep(100 * time.Millisecond)
			}
			// a second answer would come at the latest when the task context of the leaf expires
			simrt.Sleep(65 * time.Second)
		}()
	}
	if isMeta {
		rs, err := query.MetricMetadataSearch(ctx, &models.ExecuteParam{Database: db, SQL: sqlText}, meta,
			&query.SearchMgr{Timeout: time.Minute, CurNode: root, Choose: chooser, TaskMgr: rootMgr, TransportMgr: transport})
		if err != nil {
			return nil, err
		}
		out := &commonmodels.ResultSet{}
		if vals, ok := rs.([]string); ok {
			out.MetricName = strings.Join(vals, ",") // (the values of a suggest answer, for the caller)
		}
		return out, nil
	}
	rs, err := query.MetricDataSearch(ctx, &models.ExecuteParam{Database: db, SQL: sqlText}, q,
		&query.SearchMgr{Timeout: time.Minute, CurNode: root, Choose: chooser, TaskMgr: rootMgr, TransportMgr: transport})
	if err != nil {
		return nil, err
	}
	res, ok := rs.(*commonmodels.ResultSet)
	if !ok {
		return nil, fmt.Errorf("unexpected result type %T", rs)
	}
	return res, nil
}
