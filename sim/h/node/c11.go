package node

import (
	"fmt"
	"math"
	"math/rand"
	"os"
	"regexp"
	"sort"
	"strings"
	"time"

	commonmodels "github.com/lindb/common/models"
	protoMetricsV1 "github.com/lindb/common/proto/gen/v1/linmetrics"

	"github.com/lindb/lindb/index"
	"github.com/lindb/lindb/kv"
	"github.com/lindb/lindb/models"
	"github.com/lindb/lindb/tsdb"

	"verifsim/core"
	"verifsim/h/rows"
	"verifsim/simrt"
)

type H struct{}

func init() { core.Register(H{}) }

func (H) Name() string { return "node" }

func (H) End(c *core.RunCtx, end string) (string, string) {
	return "", "scheduler ended before the harness finished"
}

// ---- data universe -------------------------------------------------------------------

var (
	hosts = []string{"h1", "h2", "h10", "host-α"}
	zones = []string{"eu", "eu-west", "us", ""}   // "" = series has no zone tag
	apps  = []string{"svc", "svc2", "db", "", ""} // "" = no app tag
)

type seriesDef struct {
	id   string // unique, always present
	host string
	zone string
	app  string
}

func (s seriesDef) tags() map[string]string {
	m := map[string]string{"id": s.id, "host": s.host}
	if s.zone != "" {
		m["zone"] = s.zone
	}
	if s.app != "" {
		m["app"] = s.app
	}
	return m
}

type fieldSpec struct {
	name string
	typ  protoMetricsV1.SimpleFieldType
	agg  string // sum min max last first
}

var fieldSpecs = []fieldSpec{
	{"fsum", protoMetricsV1.SimpleFieldType_DELTA_SUM, "sum"},
	{"fmin", protoMetricsV1.SimpleFieldType_Min, "min"},
	{"fmax", protoMetricsV1.SimpleFieldType_Max, "max"},
	{"flast", protoMetricsV1.SimpleFieldType_LAST, "last"},
	{"ffirst", protoMetricsV1.SimpleFieldType_FIRST, "first"},
	// fields of a histogram (compound field of a row; plans with cfg fx=1): lindb stores min / max / sum / count and
	// one field per bucket that received observations
	{"HistogramMin", 0, "min"},
	{"HistogramMax", 0, "max"},
	{"HistogramSum", 0, "sum"},
	{"HistogramCount", 0, "sum"},
	{"__bucket_1", 0, "sum"},
	{"__bucket_5", 0, "sum"},
	{"__bucket_10", 0, "sum"},
	{"__bucket_+Inf", 0, "sum"},
}

const (
	nSimple     = 5 // simple fields written through SimpleFields
	fHistMin    = 5
	fHistBucket = 9 // first bucket field
)

var histBounds = []float64{1, 5, 10, math.Inf(1)}

type point struct {
	series int // index into the run's series list
	field  int
	ts     int64
	value  float64
	order  int // write order
	epoch  int // number of flush / compact / restart operations before the write
}

func (H) Gen(prop string, rng *rand.Rand, tier string) *core.Plan {
	if prop == "C07" {
		return genC07(rng, tier)
	}
	if prop == "C12" {
		return genC12(rng, tier)
	}
	if prop == "C19" {
		return genC19n(rng, tier)
	}
	p := &core.Plan{Harness: "node", Prop: prop, Cfg: map[string]int{}}
	p.Cfg["preempt_pm"] = []int{0, 2, 10, 40}[rng.Intn(4)]
	p.Cfg["switch_pm"] = []int{50, 300}[rng.Intn(2)]
	p.Cfg["max_steps"] = 6000000
	p.Cfg["procs"] = rng.Intn(3)
	p.Cfg["shards"] = 1 + rng.Intn(2)
	p.Cfg["nseries"] = 2 + rng.Intn(10)
	p.Cfg["sseed"] = rng.Intn(1 << 20)
	n := 4 + rng.Intn(9)
	for i := 0; i < n; i++ {
		switch r := rng.Intn(100); {
		case r < 35:
			p.Ops = append(p.Ops, core.Op{K: "write", A: int64(1 + rng.Intn(12)), S: fmt.Sprint(rng.Intn(1 << 30))})
		case r < 50:
			p.Ops = append(p.Ops, core.Op{K: "flush"})
		case r < 58:
			p.Ops = append(p.Ops, core.Op{K: "compact"})
		case r < 64 && prop == "C11":
			p.Ops = append(p.Ops, core.Op{K: "restart"})
		case r < 67:
			// the next new series get ids beyond the next roaring container boundary (65536 ids per container)
			p.Ops = append(p.Ops, core.Op{K: "jump", A: int64([]int{65530, 65536, 70000}[rng.Intn(3)])})
		case r < 72:
			qf := core.Op{K: "qflush", S: fmt.Sprint(rng.Intn(1 << 30))}
			if (prop == "C11" || prop == "C10") && rng.Intn(2) == 0 {
				qf.A = 1 // a row with another field (or of a series never written before) arrives while the flush runs
			}
			p.Ops = append(p.Ops, qf)
		case r < 76:
			// the statement is asked while every kv family of the node (index, metadata, data) is being compacted:
			// a compaction may commit, delete and unmap its input files between two steps of one query
			p.Ops = append(p.Ops, core.Op{K: "qflush", A: 2, S: fmt.Sprint(rng.Intn(1 << 30))})
		case r < 80 && prop == "C11":
			// the statement is asked while rows arrive for its series whose timestamps lie outside its time range (they
			// leave the write window of the memory database: compaction of the window under the reader)
			p.Ops = append(p.Ops, core.Op{K: "qflush", A: 3, S: fmt.Sprint(rng.Intn(1 << 30))})
		default:
			p.Ops = append(p.Ops, core.Op{K: "query", S: fmt.Sprint(rng.Intn(1 << 30))})
		}
	}
	p.Ops = append(p.Ops, core.Op{K: "flush"}, core.Op{K: "query", S: fmt.Sprint(rng.Intn(1 << 30))}, core.Op{K: "query", S: fmt.Sprint(rng.Intn(1 << 30))})
	p.Cfg["maporder"] = rng.Intn(2)   // tape-chosen iteration order of Go maps in the code under test
	core.GenZone(p, rng.Intn)         // the node's local time zone
	p.Cfg["realmgr"] = rng.Intn(2)    // responses are received by lindb's own task manager on a real worker pool
	p.Cfg["mgrworkers"] = rng.Intn(3) // 1-3 workers
	p.Cfg["fieldmodes"] = rng.Intn(2)
	if prop == "C10" {
		p.Cfg["odd"] = rng.Intn(2) // tag values starting with '~' / containing a comma, filters that print alike
	}
	if prop == "C11" {
		p.Cfg["multi"] = rng.Intn(2)        // statements may select two columns
		p.Cfg["families"] = 1 + rng.Intn(2) // points of one or two hours: one or two data families per shard
		p.Cfg["fx"] = rng.Intn(2)           // histograms in the rows; rate, arithmetic, quantile, functions on last / first fields in the statements
	}
	return p
}

type run struct {
	c          *core.RunCtx
	n          *Node
	db         string
	shards     int
	series     []seriesDef
	shardOf    []int
	route      bool         // writes are split by lindb's broker-side routing (hash -> shard, timestamp -> family)
	own        map[int]bool // C12 node databases: the shards this database holds (nil = all)
	forceOnly  int          // > 0: the next write carries exactly field forceOnly-1 (mid-flush writes)
	lateSeries map[int]bool // ... and the series it writes to
	lateWriter bool         // the statement in progress is asked while the late writer runs
	midFlush   bool         // the write in progress arrives while a flush runs (see pointEpoch)
	forceNew   bool         // the next write goes to series that were never written before (writes while the index is being flushed)
	points     []point
	flushes    int
	epoch      int
	seqBase    uint32 // series id sequence set by the last jump

	pendingFirstLast func() // first C11/first-last-order observation of the run (known finding)
}

func atoi(s string) int64 {
	var n int64
	for _, ch := range s {
		if ch >= '0' && ch <= '9' {
			n = n*10 + int64(ch-'0')
		}
	}
	return n
}

func (H) Run(c *core.RunCtx) {
	oddMode = c.Plan.C("odd", 0) == 1
	switch c.Plan.Prop {
	case "C07":
		runC07(c)
		return
	case "C12":
		runC12(c)
		return
	case "C19":
		runC19n(c)
		return
	}
	n, err := Start(c, c.Dir)
	if err != nil {
		c.Anomaly("start: %v", err)
		return
	}
	r := &run{c: c, n: n, db: "d" + NewTag(c), shards: c.Plan.C("shards", 1)}
	if err := n.CreateDB(r.db, r.shards); err != nil {
		c.Anomaly("create db: %v", err)
		return
	}
	r.genSeries()
	for i, op := range c.Plan.Ops {
		if c.Violated() || c.Res.Anomaly != "" {
			return
		}
		c.Sim.Event("op %d %s", i, op.String())
		switch op.K {
		case "write":
			r.write(op)
		case "flush":
			r.flush()
		case "compact":
			r.compact()
		case "jump":
			r.jump(op.A)
		case "restart":
			r.epoch++
			r.n.Engine.Close()
			c.Sim.Fault("close-reopen")
			n2, err := Start(c, c.Dir)
			if err != nil {
				c.Violate(c.Plan.Prop+"/reopen-failed", "engine reopen: %v", err)
				return
			}
			r.n = n2
		case "query":
			r.query(op, false)
		case "qflush":
			r.query(op, true)
		}
	}
	if r.pendingFirstLast != nil && !c.Violated() && c.Res.Anomaly == "" {
		r.pendingFirstLast()
	}
}

func (r *run) genSeries() {
	rng := rand.New(rand.NewSource(int64(r.c.Plan.C("sseed", 1))))
	ns := r.c.Plan.C("nseries", 4)
	for i := 0; i < ns; i++ {
		s := seriesDef{id: fmt.Sprintf("s%02d", i), host: hosts[rng.Intn(len(hosts))], zone: zones[rng.Intn(len(zones))], app: apps[rng.Intn(len(apps))]}
		if oddMode && i%4 == 1 {
			s.app = "~^svc"
		} else if oddMode && i%4 == 2 {
			s.app = "svc,db"
		}
		r.series = append(r.series, s)
		r.shardOf = append(r.shardOf, rng.Intn(r.shards))
	}
	// make sure every tag key exists in the metric's schema
	r.series[0].zone, r.series[0].app = "eu", "svc"
}

// pointEpoch: between which two flushes a point was written - the points of one storage slot that carry the same
// number sit in one memory database. A row that arrives WHILE a flush runs may land on either side of the switch of
// the memory databases: its points get a number of their own (no other point is known to share their place).
func (r *run) pointEpoch() int {
	if r.midFlush {
		return -1 - len(r.points)
	}
	return r.epoch
}

func (r *run) write(op core.Op) {
	rng := rand.New(rand.NewSource(atoi(op.S)))
	byShard := map[int][]rows.Point{}
	// field modes (new plans): a write may carry only the first one or two fields, so files whose metric block
	// has a single field (a layout of its own) and files with other field sets meet in queries and compactions
	limit, only := nSimple, -1
	if r.forceOnly > 0 {
		only = r.forceOnly - 1
	} else if r.c.Plan.C("fieldmodes", 0) == 1 {
		mrng := rand.New(rand.NewSource(atoi(op.S) ^ 0x5eed))
		if m := mrng.Intn(4); m < 2 {
			limit = 1 + m
			r.c.Sim.Probe(fmt.Sprintf("write-with-%d-fields", limit))
		} else if m == 2 && r.c.Plan.C("multi", 0) == 1 {
			// one field only, and not the first: a flushed block whose single field is a later one of the metric
			only = 1 + mrng.Intn(nSimple-1)
			r.c.Sim.Probe("write-with-one-later-field")
		}
	}
	nrows := op.A
	if r.c.Plan.C("bigbatch", 0) == 1 {
		nrows *= 4 // batches of up to 48 rows: the sorts of the broker-side batch code leave their small-input path
	}
	for i := int64(0); i < nrows; i++ {
		si := rng.Intn(len(r.series))
		if r.forceNew {
			// a series no row was written for yet, if there is one left
			seen := map[int]bool{}
			for _, p := range r.points {
				seen[p.series] = true
			}
			for k := 0; k < len(r.series); k++ {
				if cand := (si + k) % len(r.series); !seen[cand] {
					si = cand
					r.c.Sim.Probe("new-series-while-index-is-flushed")
					break
				}
			}
		}
		// timestamps inside the first 10 minutes of the hour, slot aligned or not; duplicates and out of order happen
		ts := Jan1 + int64(rng.Intn(60))*10000 + int64(rng.Intn(3))*3333
		if fams := r.c.Plan.C("families", 1); fams > 1 {
			ts += int64(rng.Intn(fams)) * 3600000
		}
		var fs []rows.Field
		for fi, spec := range fieldSpecs[:nSimple] {
			if fi >= limit {
				break
			}
			if only >= 0 {
				if fi != only {
					continue
				}
			} else if rng.Intn(3) == 0 && len(fs) > 0 {
				continue
			}
			v := float64(1 + rng.Intn(40))
			fs = append(fs, rows.Field{Name: spec.name, Type: spec.typ, Value: v})
			r.points = append(r.points, point{series: si, field: fi, ts: ts, value: v, order: len(r.points), epoch: r.pointEpoch()})
		}
		var hist *rows.Hist
		if r.c.Plan.C("fx", 0) == 1 && only < 0 && rng.Intn(4) == 0 {
			// the row carries a histogram as well
			hist = &rows.Hist{Bounds: histBounds, Min: float64(rng.Intn(5)), Max: float64(5 + rng.Intn(30)), Sum: float64(rng.Intn(100)), Count: float64(1 + rng.Intn(20))}
			for bi := range histBounds {
				v := float64(rng.Intn(4)) // 0: the bucket gets no value in this row
				hist.Values = append(hist.Values, v)
				if v > 0 {
					r.points = append(r.points, point{series: si, field: fHistBucket + bi, ts: ts, value: v, order: len(r.points), epoch: r.pointEpoch()})
				}
			}
			for k, v := range []float64{hist.Min, hist.Max, hist.Sum, hist.Count} {
				r.points = append(r.points, point{series: si, field: fHistMin + k, ts: ts, value: v, order: len(r.points), epoch: r.pointEpoch()})
			}
			r.c.Sim.Probe("write-histogram")
		}
		byShard[r.shardOf[si]] = append(byShard[r.shardOf[si]], rows.Point{Name: "m", Tags: r.series[si].tags(), Timestamp: ts, Fields: fs, Hist: hist})
	}
	if r.route {
		// the batch goes the broker's way: lindb's routing hash picks the shard of every row and its batch
		// iterators cut the rows of a shard into families
		var all []rows.Point
		for sh := 0; sh < r.shards; sh++ {
			all = append(all, byShard[sh]...)
		}
		var ownFn []func(int) bool
		if r.own != nil {
			ownFn = append(ownFn, func(sh int) bool { return r.own[sh] })
		}
		if err := r.n.WriteRouted(r.db, r.shards, all, ownFn...); err != nil {
			r.c.Anomaly("routed write: %v", err)
		}
		r.c.Sim.Probe("write-routed-by-hash")
		return
	}
	for sh := 0; sh < r.shards; sh++ {
		if len(byShard[sh]) == 0 || (r.own != nil && !r.own[sh]) {
			continue
		}
		if err := r.n.Write(r.db, sh, byShard[sh]); err != nil {
			r.c.Anomaly("write: %v", err)
			return
		}
	}
}

// hasImmutable reports whether a data family of the run's shards has a memory database that is being flushed.
// indexFlushing: the index database of one of the shards is between PrepareFlush and the end of Flush.
func (r *run) indexFlushing() bool {
	for sh := 0; sh < r.shards; sh++ {
		if shard, ok := r.n.Engine.GetShard(r.db, models.ShardID(sh)); ok && index.VerifFlushing(shard.IndexDB()) {
			return true
		}
	}
	return false
}

func (r *run) hasImmutable() bool {
	for sh := 0; sh < r.shards; sh++ {
		shard, ok := r.n.Engine.GetShard(r.db, models.ShardID(sh))
		if !ok {
			continue
		}
		for fi := 0; fi < r.c.Plan.C("families", 1); fi++ {
			f, err := shard.GetOrCrateDataFamily(Jan1 + int64(fi)*3600000)
			if err != nil {
				continue
			}
			for _, m := range f.GetState().MemoryDatabases {
				if m.State == "immutable" {
					return true
				}
			}
		}
	}
	return false
}

// flush: the steps of the flush checker (metadata -> shard index -> family data), driven from here, or -
// every other time - a flush job of the engine's real flush checker (which also garbage collects the write
// buffers of flushed memory databases).
func (r *run) flush() {
	db, ok := r.n.Engine.GetDatabase(r.db)
	if !ok {
		return
	}
	r.flushes++
	r.epoch++
	r.c.Sim.Fault("flush")
	if r.flushes%2 == 0 {
		r.c.Sim.Probe("flush-by-checker")
		_ = db.Flush()
		simrt.Sleep(time.Millisecond)
		for i := 0; i < 3000 && tsdb.VerifFlushInFlight(r.n.Engine) > 0; i++ {
			simrt.Sleep(time.Millisecond)
		}
		return
	}
	if err := db.FlushMeta(); err != nil {
		r.c.Anomaly("flush meta: %v", err)
		return
	}
	db.WaitFlushMetaCompleted()
	for sh := 0; sh < r.shards; sh++ {
		shard, ok := db.GetShard(models.ShardID(sh))
		if !ok {
			continue
		}
		if err := shard.FlushIndex(); err != nil {
			r.c.Anomaly("flush index: %v", err)
			return
		}
		shard.WaitFlushIndexCompleted()
		for _, f := range tsdb.GetFamilyManager().GetFamiliesByShard(shard) {
			if err := f.Flush(); err != nil {
				r.c.Anomaly("flush family: %v", err)
				return
			}
		}
	}
}

// jump moves the series id sequence of the metric forward in every shard, so that series created from now
// on live in a later roaring container (series ids are dense otherwise and a run creates a dozen).
func (r *run) jump(by int64) {
	db, ok := r.n.Engine.GetDatabase(r.db)
	if !ok {
		return
	}
	mid, err := db.MetaDB().GetMetricID("default-ns", "m")
	if err != nil {
		return // nothing written yet
	}
	if r.seqBase+uint32(by) > 190000 {
		return // the default limit is 200000 series per metric: ids beyond it are rejected (too many series)
	}
	r.seqBase += uint32(by)
	for sh := 0; sh < r.shards; sh++ {
		if shard, ok := db.GetShard(models.ShardID(sh)); ok {
			index.VerifSetSeriesSequence(shard.IndexDB(), mid, r.seqBase)
		}
	}
	r.c.Sim.Probe("series-sequence-jump")
}

func (r *run) compact() {
	r.epoch++
	r.c.Sim.Fault("compact")
	stores := kv.GetStoreManager().GetStores()
	sort.Slice(stores, func(i, j int) bool { return stores[i].Name() < stores[j].Name() })
	var fams []kv.Family
	for _, st := range stores {
		names := st.ListFamilyNames()
		sort.Strings(names)
		for _, fn := range names {
			f := st.GetFamily(fn)
			f.Compact()
			fams = append(fams, f)
		}
	}
	r.c.Sim.Await(func() bool {
		for _, f := range fams {
			if kv.VerifFamilyBusy(f) {
				return false
			}
		}
		return true
	})
}

// ---- queries ----------------------------------------------------------------------------

type cond interface {
	sql() string
	eval(s seriesDef) bool
}

type atom struct {
	key, op string
	vals    []string
}

func tagOf(s seriesDef, key string) (string, bool) {
	v, ok := s.tags()[key]
	return v, ok
}

func (a atom) sql() string {
	switch a.op {
	case "=":
		return fmt.Sprintf("%s='%s'", a.key, a.vals[0])
	case "!=":
		return fmt.Sprintf("%s!='%s'", a.key, a.vals[0])
	case "in":
		return fmt.Sprintf("%s in ('%s')", a.key, strings.Join(a.vals, "','"))
	case "not in":
		return fmt.Sprintf("%s not in ('%s')", a.key, strings.Join(a.vals, "','"))
	case "like":
		return fmt.Sprintf("%s like '%s'", a.key, a.vals[0])
	case "not like":
		return fmt.Sprintf("%s not like '%s'", a.key, a.vals[0])
	case "=~":
		return fmt.Sprintf("%s=~'%s'", a.key, a.vals[0])
	default:
		return fmt.Sprintf("%s!~'%s'", a.key, a.vals[0])
	}
}

func likeMatch(pattern, v string) bool {
	pre, suf := strings.HasPrefix(pattern, "*"), strings.HasSuffix(pattern, "*")
	switch {
	case pattern == "":
		return false
	case !pre && suf:
		return strings.HasPrefix(v, pattern[:len(pattern)-1])
	case pre && !suf:
		return strings.HasSuffix(v, pattern[1:])
	case pre && suf:
		if len(pattern) < 2 {
			return true
		}
		return strings.Contains(v, pattern[1:len(pattern)-1])
	default:
		return v == pattern
	}
}

func (a atom) eval(s seriesDef) bool {
	v, has := tagOf(s, a.key)
	if !has {
		return false // also for the negated forms: not = series having the key minus the matches
	}
	pos := false
	switch a.op {
	case "=", "!=":
		pos = v == a.vals[0]
	case "in", "not in":
		for _, x := range a.vals {
			if v == x {
				pos = true
			}
		}
	case "like", "not like":
		pos = likeMatch(a.vals[0], v)
	default:
		pos = regexp.MustCompile(a.vals[0]).MatchString(v)
	}
	if a.op == "!=" || a.op == "not in" || a.op == "not like" || a.op == "!~" {
		return !pos
	}
	return pos
}

type binary struct {
	l, r cond
	and  bool
}

func (b binary) sql() string {
	op := " or "
	if b.and {
		op = " and "
	}
	return "(" + b.l.sql() + op + b.r.sql() + ")"
}
func (b binary) eval(s seriesDef) bool {
	if b.and {
		return b.l.eval(s) && b.r.eval(s)
	}
	return b.l.eval(s) || b.r.eval(s)
}

func genAtom(rng *rand.Rand) cond {
	key := []string{"host", "zone", "app", "id"}[rng.Intn(4)]
	var pool []string
	switch key {
	case "host":
		pool = append(pool, hosts...)
	case "zone":
		pool = []string{"eu", "eu-west", "us", "asia"}
	case "app":
		pool = []string{"svc", "svc2", "db", "none"}
		if oddMode {
			pool = append(pool, "~^svc", "svc,db")
		}
	default:
		pool = []string{"s00", "s01", "s02", "s05", "s10", "s99"}
	}
	pickv := func() string { return pool[rng.Intn(len(pool))] }
	switch rng.Intn(8) {
	case 0:
		return atom{key, "=", []string{pickv()}}
	case 1:
		return atom{key, "!=", []string{pickv()}}
	case 2:
		return atom{key, "in", []string{pickv(), pickv()}}
	case 3:
		return atom{key, "not in", []string{pickv(), pickv()}}
	case 4:
		v := pickv()
		rs := []rune(v) // whole runes: the statement must stay valid UTF-8
		first, last := string(rs[:1]), string(rs[len(rs)-1:])
		pats := []string{first + "*", "*" + last, "*" + first + "*", v, "*"}
		return atom{key, "like", []string{pats[rng.Intn(len(pats))]}}
	case 5:
		v := pickv()
		return atom{key, "not like", []string{string([]rune(v)[:1]) + "*"}}
	case 6:
		return atom{key, "=~", []string{[]string{"^h1", "eu", "s0[0-3]", "svc.*", "^db$", "1$", "(?i)^H1", "(?i)^SVC", "^(?i)EU", "(?i)^(S0)[0-3]"}[rng.Intn(10)]}}
	default:
		return atom{key, "!~", []string{[]string{"^h1", "eu", "s0[0-3]", "svc"}[rng.Intn(4)]}}
	}
}

// oddMode (plans with cfg odd=1): tag values that begin with '~' or contain a comma exist, and conditions hold pairs
// of different filters that read the same once printed (app='~^svc' / app=~'^svc', in ('svc','db') / in ('svc,db')).
// Set by Run from the plan before anything is generated.
var oddMode bool

func genCond(rng *rand.Rand, depth int) cond {
	if oddMode && rng.Intn(5) == 0 {
		var a, b cond
		if rng.Intn(2) == 0 {
			a, b = atom{"app", "=", []string{"~^svc"}}, atom{"app", []string{"=~", "!~"}[rng.Intn(2)], []string{"^svc"}}
		} else {
			a, b = atom{"app", "in", []string{"svc", "db"}}, atom{"app", []string{"in", "not in"}[rng.Intn(2)], []string{"svc,db"}}
		}
		if rng.Intn(2) == 0 {
			a, b = b, a
		}
		return binary{a, b, rng.Intn(2) == 0}
	}
	if depth <= 0 || rng.Intn(3) == 0 {
		return genAtom(rng)
	}
	return binary{genCond(rng, depth-1), genCond(rng, depth-1), rng.Intn(2) == 0}
}

type queryDef struct {
	field    int
	cond     cond
	groupBy  []string // subset of id, host (always present keys)
	interval int64    // 0 = storage interval
	start    int64
	end      int64
	fn       string // "", or a function on the sum field: sum, min, max (down-sampling and merge of series by that function)
	// plans with cfg fx=1: "rate" (rate of the sum field), "mul2" / "add10" (arithmetic with a literal), "quantile"
	// (over the histogram buckets); fn may also be sum / min / max on the last and first fields
	kind string
	qv   float64 // quantile
	// a second select item (plans with cfg multi=1): another field, or another function of the sum field
	two    bool
	field2 int
	fn2    string
}

// second returns the query seen from its second select item.
func (q queryDef) second() queryDef {
	q2 := q
	q2.field, q2.fn, q2.two, q2.kind = q.field2, q.fn2, false, ""
	return q2
}

// column is the name of the selected column in the statement and in the result.
func (q queryDef) column() string {
	if q.kind != "" {
		return "c1" // the new kinds are selected under an alias
	}
	if q.fn != "" {
		return q.fn + "(" + fieldSpecs[q.field].name + ")"
	}
	return fieldSpecs[q.field].name
}

func (q queryDef) sql() string {
	var sb strings.Builder
	cols := q.column()
	switch q.kind {
	case "rate":
		cols = "rate(" + fieldSpecs[q.field].name + ") as c1"
	case "mul2":
		cols = fieldSpecs[q.field].name + "*2 as c1"
	case "add10":
		cols = fieldSpecs[q.field].name + "+10 as c1"
	case "quantile":
		cols = fmt.Sprintf("quantile(%v) as c1", q.qv)
	}
	if q.two {
		cols += "," + q.second().column()
	}
	fmt.Fprintf(&sb, "select %s from m where ", cols)
	if q.cond != nil {
		sb.WriteString(q.cond.sql() + " and ")
	}
	fmt.Fprintf(&sb, "time>='%s' and time<='%s'", fmtTime(q.start), fmtTime(q.end))
	var gb []string
	gb = append(gb, q.groupBy...)
	if q.interval > 0 {
		gb = append(gb, fmt.Sprintf("time(%ds)", q.interval/1000))
	}
	if len(gb) > 0 {
		sb.WriteString(" group by " + strings.Join(gb, ","))
	}
	return sb.String()
}

// fmtTime writes a timestamp the way a statement gives it: in the node's local time zone.
func fmtTime(ms int64) string {
	return time.UnixMilli(ms).In(time.Local).Format("2006-01-02 15:04:05")
}

func genQuery(rng *rand.Rand, prop string, fams int, multi ...bool) queryDef {
	q := genQuery1(rng, prop, fams)
	if len(multi) > 0 && multi[0] && prop != "C10" && rng.Intn(3) == 0 {
		// (drawn after everything else: the first item of a statement is the same with and without this)
		q.two = true
		if q.field == 0 && rng.Intn(2) == 0 {
			// two functions of the sum field in one statement
			for {
				q.field2, q.fn2 = 0, []string{"", "sum", "min", "max"}[rng.Intn(4)]
				if q.fn2 != q.fn {
					break
				}
			}
		} else {
			q.field2 = (q.field + 1 + rng.Intn(nSimple-1)) % nSimple
		}
	}
	if len(multi) > 1 && multi[1] && prop != "C10" && rng.Intn(3) == 0 {
		// plans with cfg fx=1 (drawn last: everything else of the statement is as without it)
		switch k := rng.Intn(8); {
		case k == 0:
			q.field, q.fn, q.kind = 0, "", "rate"
		case k == 1:
			q.fn, q.kind = "", []string{"mul2", "add10"}[rng.Intn(2)]
		case k == 2 || k == 3:
			q.fn, q.kind, q.qv = "", "quantile", []float64{0.5, 0.9, 0.99, 0.75}[rng.Intn(4)]
			q.field = fHistBucket
		case k == 4 || k == 5:
			q.field, q.fn = fHistMin+rng.Intn(4), "" // HistogramMin / Max / Sum / Count as plain fields
		default:
			// a function on the last / first field: the storage slots hold the last / first written value, the
			// function combines the slots of a bucket and the series of a group
			q.field, q.fn = 3+rng.Intn(2), []string{"sum", "min", "max"}[rng.Intn(3)]
		}
		if q.two && q.field2 == q.field {
			q.two = false
		}
	}
	return q
}

func genQuery1(rng *rand.Rand, prop string, fams int) queryDef {
	q := queryDef{field: rng.Intn(nSimple)}
	if prop == "C10" {
		q.field = 0
		q.cond = genCond(rng, 1+rng.Intn(3))
		q.groupBy = []string{"id", "host"}
		q.start, q.end = Jan1, Jan1+3599000
		return q
	}
	if rng.Intn(2) == 0 {
		q.cond = genCond(rng, rng.Intn(2))
	}
	q.groupBy = [][]string{nil, {"host"}, {"id"}, {"id", "host"}}[rng.Intn(4)]
	q.interval = []int64{0, 0, 20000, 30000, 60000}[rng.Intn(5)]
	q.start = Jan1 + int64(rng.Intn(20))*10000
	q.end = q.start + int64(1+rng.Intn(50))*10000 + 9000
	if rng.Intn(3) == 0 {
		q.start, q.end = Jan1, Jan1+3599000
	}
	if q.field == 0 && rng.Intn(3) == 0 {
		q.fn = []string{"sum", "min", "max"}[rng.Intn(3)]
	}
	if fams > 1 {
		switch rng.Intn(3) {
		case 0: // the second hour
			q.start, q.end = q.start+3600000, q.end+3600000
		case 1: // both families
			q.end += 3600000
		}
	}
	return q
}

// expected: group key (values of the group-by keys joined) -> slot start -> candidate values
type expGroup struct {
	tags   map[string]string
	values map[int64][]point
}

func (r *run) expected(q queryDef, upto int) map[string]*expGroup {
	out := map[string]*expGroup{}
	interval := int64(10000)
	if q.interval > interval {
		interval = q.interval
	}
	// lindb truncates the time range to the storage interval and anchors the query buckets at that
	// start (query/context/utils.go calcTimeRangeAndInterval, query/stage/data_load_stage.go BaseSlot)
	start := q.start / 10000 * 10000
	end := q.end / 10000 * 10000
	for _, p := range r.points[:upto] {
		if p.field != q.field && !(q.kind == "quantile" && p.field >= fHistBucket) {
			continue
		}
		s := r.series[p.series]
		if q.cond != nil && !q.cond.eval(s) {
			continue
		}
		// a point lives in its storage slot; the query selects storage slots inside [start, end]
		slotTs := p.ts / 10000 * 10000
		if slotTs < start || slotTs > end {
			continue
		}
		tags := map[string]string{}
		var key []string
		for _, k := range q.groupBy {
			v, _ := tagOf(s, k)
			tags[k] = v
			key = append(key, v)
		}
		g := out[strings.Join(key, ",")]
		if g == nil {
			g = &expGroup{tags: tags, values: map[int64][]point{}}
			out[strings.Join(key, ",")] = g
		}
		qslot := start + (slotTs-start)/interval*interval
		g.values[qslot] = append(g.values[qslot], p)
	}
	return out
}

func aggregate(agg string, ps []point) (float64, []float64) {
	var cands []float64
	switch agg {
	case "sum":
		s := 0.0
		for _, p := range ps {
			s += p.value
		}
		return s, nil
	case "min":
		m := math.Inf(1)
		for _, p := range ps {
			m = math.Min(m, p.value)
		}
		return m, nil
	case "max":
		m := math.Inf(-1)
		for _, p := range ps {
			m = math.Max(m, p.value)
		}
		return m, nil
	}
	for _, p := range ps {
		cands = append(cands, p.value)
	}
	return 0, cands
}

func (r *run) query(op core.Op, duringFlush bool) {
	c := r.c
	rng := rand.New(rand.NewSource(atoi(op.S)))
	q := genQuery(rng, c.Plan.Prop, c.Plan.C("families", 1), c.Plan.C("multi", 0) == 1, c.Plan.C("fx", 0) == 1)
	sqlText := q.sql()
	before := len(r.points) // every write completed before the query started
	flushDone := true
	var latePoints []point
	r.lateWriter, r.lateSeries = false, nil
	defer func() {
		r.lateWriter, r.lateSeries = false, nil
	}()
	defer func() {
		// known findings (10.2): a statement that overlaps writes. Only the two analysed signatures, and only when this
		// statement was asked while the late writer ran
		if latePoints != nil && (c.Res.Sig == "C11/value-missing" || c.Res.Sig == "C11/series-unexpected") {
			c.Res.Sig += "/during-out-of-range-write"
		}
	}()
	if c.Violated() {
		return
	}
	if duringFlush && op.A == 3 {
		// a writer task: 1-3 rows for series of the run, 40-55 minutes into an hour the statement does not cover at
		// that place (the rows of the run lie in the first 10 minutes); the expected answer does not change
		duringFlush = false
		var ts int64 = -1
		for _, cand := range []int64{Jan1 + 2400000 + int64(rng.Intn(90))*10000, Jan1 + 3600000 + 2400000 + int64(rng.Intn(90))*10000} {
			if (cand < q.start || cand > q.end) && (cand < Jan1+3600000 || c.Plan.C("families", 1) > 1) {
				ts = cand
				break
			}
		}
		if ts >= 0 {
			flushDone = false
			nrows := 1 + rng.Intn(3)
			byShard := map[int][]rows.Point{}
			for i := 0; i < nrows; i++ {
				si := rng.Intn(len(r.series))
				var fs []rows.Field
				for fi, spec := range fieldSpecs[:nSimple] {
					v := float64(1 + rng.Intn(40))
					fs = append(fs, rows.Field{Name: spec.name, Type: spec.typ, Value: v})
					latePoints = append(latePoints, point{series: si, field: fi, ts: ts + int64(i)*10000, value: v, epoch: r.epoch})
					if r.lateSeries == nil {
						r.lateSeries = map[int]bool{}
					}
					r.lateSeries[si] = true
				}
				byShard[r.shardOf[si]] = append(byShard[r.shardOf[si]], rows.Point{Name: "m", Tags: r.series[si].tags(), Timestamp: ts + int64(i)*10000, Fields: fs})
			}
			r.lateWriter = true
			c.Sim.Spawn("late-writer", func() {
				for sh := 0; sh < r.shards; sh++ {
					if len(byShard[sh]) > 0 {
						if err := r.n.Write(r.db, sh, byShard[sh]); err != nil {
							c.Anomaly("write: %v", err)
						}
					}
				}
				c.Sim.Probe("query-during-out-of-range-writes")
				flushDone = true
			})
			if os.Getenv("VERIF_LATE_WRITER_FIRST") != "" { // diagnosis: no overlap, the rows are written before the statement is asked
				c.Sim.Await(func() bool { return flushDone })
			}
		}
	}
	if duringFlush {
		flushDone = false
		c.Sim.Spawn("flusher", func() {
			if op.A == 2 {
				r.compact()
				c.Sim.Probe("query-during-compaction")
			} else {
				r.flush()
			}
			flushDone = true
		})
	}
	if duringFlush && op.A == 1 {
		// while the flush runs (the memory database may be switched, its file not yet committed) a row arrives that
		// carries only another field of the metric, then the statement is asked
		// half of the time right away, otherwise once a memory database of the metric's shards has been switched
		if mode := c.Sim.Tape.Choose(3); mode == 0 {
			for i := c.Sim.Tape.Choose(4); i > 0; i-- {
				c.Sim.YieldNow()
			}
		} else if mode == 2 {
			// ... or once the index of a shard is being flushed (between PrepareFlush and the end of Flush): the rows
			// then go to series that were never written before, whose index entries land in the new mutable stores
			// while the old ones are being persisted
			for i := 0; i < 600 && !flushDone && !r.indexFlushing(); i++ {
				c.Sim.YieldNow()
			}
			if r.indexFlushing() {
				c.Sim.Probe("write-while-index-is-flushed")
				r.forceNew = true
			}
		} else {
			for i := 0; i < 600 && !flushDone && !r.hasImmutable(); i++ {
				c.Sim.YieldNow()
			}
			if r.hasImmutable() {
				c.Sim.Probe("write-while-memdb-immutable")
			}
		}
		other := (q.field + 1 + int(atoi(op.S)%2)) % 3 // one of the sum / min / max fields, not the queried one
		if other == q.field {
			other = (other + 1) % 3
		}
		r.forceOnly = other + 1
		if r.forceNew || c.Plan.Prop == "C10" {
			// new series come with whatever fields the row has; the C10 statements select the first field, which every
			// row of those plans carries (a group without a value of the selected field is judged strictly there)
			r.forceOnly = 0
		}
		r.midFlush = true
		r.write(core.Op{K: "write", A: 1 + atoi(op.S)%2, S: op.S + "7"})
		r.forceOnly, r.forceNew, r.midFlush = 0, false, false
		before = len(r.points)
		c.Sim.Probe("write-during-flush")
	}
	lay := Layout{}
	all := make([]int, r.shards)
	for i := range all {
		all[i] = i
	}
	lay.Leaves = [][]int{all}
	lay.Delay = func() time.Duration {
		return []time.Duration{0, 0, time.Millisecond, 3 * time.Millisecond}[c.Sim.Tape.Choose(4)]
	}
	rs, err := r.n.Query(r.db, sqlText, lay)
	// while the flush is still running the same query is asked again (up to two more times): every answer is
	// judged, the last one is the one compared in detail below if the earlier ones were right
	for extra := 0; duringFlush && !flushDone && extra < 2 && err == nil; extra++ {
		exp0 := r.expected(q, before)
		r.compare(sqlText+" [asked again during the flush]", q, exp0, rs)
		if q.two && !c.Violated() {
			r.compare(sqlText+" [asked again during the flush, 2nd column]", q.second(), r.expected(q.second(), before), rs)
		}
		if c.Violated() {
			return
		}
		c.Sim.Probe("query-repeated-during-flush")
		rs, err = r.n.Query(r.db, sqlText, lay)
	}
	c.Sim.Await(func() bool { return flushDone })
	c.Oracle()
	exp := r.expected(q, before)
	for _, lp := range latePoints {
		lp.order = len(r.points)
		r.points = append(r.points, lp)
	}
	prop := c.Plan.Prop
	if err != nil && q.two {
		// a statement that names a field no written point carries is rejected like one naming an unknown column
		for _, qq := range []queryDef{q, q.second()} {
			written := false
			for _, p := range r.points[:before] {
				written = written || p.field == qq.field
			}
			if !written && strings.Contains(err.Error(), "not found") {
				c.Sim.Probe("unknown-field")
				return
			}
		}
		if len(exp) == 0 {
			exp = r.expected(q.second(), before) // "not found" is right only when neither column has data
		}
	}
	if err != nil {
		// a tag key that no written series of the metric carries is unknown to the schema: the statement is
		// rejected like one naming an unknown column
		if strings.Contains(err.Error(), "tag key not found") {
			for _, k := range r.unknownKeys(q, before) {
				if strings.Contains(err.Error(), "tag key: "+k) {
					c.Sim.Probe("unknown-tag-key")
					return
				}
			}
		}
		if strings.Contains(err.Error(), "not found") && len(exp) == 0 {
			c.Sim.Probe("empty-result")
			return
		}
		if strings.Contains(err.Error(), "not found") {
			c.Violate(prop+"/data-not-found", "%s: query failed with %q but %d groups are expected", sqlText, err, len(exp))
			return
		}
		c.Violate(prop+"/query-failed", "%s: %v", sqlText, err)
		return
	}
	r.compare(sqlText, q, exp, rs)
	if q.two && !c.Violated() {
		r.compare(sqlText+" [2nd column]", q.second(), r.expected(q.second(), before), rs)
	}
	if c.Violated() && os.Getenv("VERIF_TRACE") != "" {
		for _, p := range r.points[:before] {
			if p.field == q.field {
				c.Sim.Event("  point series=%s %v ts=+%ds value=%v", r.series[p.series].id, r.series[p.series].tags(), (p.ts-Jan1)/1000, p.value)
			} else {
				c.Sim.Event("  (other field %s) series=%s ts=+%ds value=%v", fieldSpecs[p.field].name, r.series[p.series].id, (p.ts-Jan1)/1000, p.value)
			}
		}
		for _, s := range rs.Series {
			var ts []int64
			for t := range s.Fields[q.column()] {
				ts = append(ts, t)
			}
			sort.Slice(ts, func(i, j int) bool { return ts[i] < ts[j] })
			line := ""
			for _, t := range ts {
				line += fmt.Sprintf("+%ds:%v ", (t-Jan1)/1000, s.Fields[q.column()][t])
			}
			c.Sim.Event("  result %v: %s", s.Tags, line)
		}
		r.dumpIndex()
		for _, variant := range []string{
			"select fsum from m where time>='2000-01-01 00:01:10' and time<='2000-01-01 01:08:09' group by id,time(60s)",
			"select fsum from m where app not like 'n*' and time>='2000-01-01 00:01:10' and time<='2000-01-01 01:08:09' group by id,time(60s)",
			"select fsum from m where zone not like 'e*' and time>='2000-01-01 00:01:10' and time<='2000-01-01 01:08:09' group by id,time(60s)",
			"select fsum from m where (app not like 'n*' or zone not like 'e*') and time>='2000-01-01 00:01:10' and time<='2000-01-01 00:58:09' group by id,time(60s)",
		} {
			if os.Getenv("VERIF_VARIANTS") == "" {
				break
			}
			rs2, err2 := r.n.Query(r.db, variant, lay)
			if err2 != nil {
				c.Sim.Event("  variant %s: %v", variant, err2)
				continue
			}
			for _, s2 := range rs2.Series {
				if s2.Tags["id"] == "s01" {
					c.Sim.Event("  variant %s: %v", variant[17:60], s2.Fields["fsum"])
				}
			}
		}
		for _, fs := range fieldSpecs {
			rs2, err2 := r.n.Query(r.db, "select "+fs.name+" from m where time>='"+fmtTime(Jan1)+"' and time<='"+fmtTime(Jan1+3599000)+"' group by id,time(10s)", lay)
			if err2 != nil {
				c.Sim.Event("  all %s: %v", fs.name, err2)
				continue
			}
			for _, s2 := range rs2.Series {
				var ts []int64
				for t := range s2.Fields[fs.name] {
					ts = append(ts, t)
				}
				sort.Slice(ts, func(i, j int) bool { return ts[i] < ts[j] })
				line := ""
				for _, t := range ts {
					line += fmt.Sprintf("+%ds:%v ", (t-Jan1)/1000, s2.Fields[fs.name][t])
				}
				c.Sim.Event("  all %s %v: %s", fs.name, s2.Tags, line)
			}
		}
		c.Sim.Event("  result interval=%d start=+%ds end=+%ds", rs.Interval, (rs.StartTime-Jan1)/1000, (rs.EndTime-Jan1)/1000)
	}
}

func (r *run) compare(sqlText string, q queryDef, exp map[string]*expGroup, rs *commonmodels.ResultSet) {
	c := r.c
	prop := c.Plan.Prop
	fname := q.column()
	var firstLastFlag func() // reported at the end of the run: it must never hide another violation
	defer func() {
		if firstLastFlag != nil && r.pendingFirstLast == nil {
			r.pendingFirstLast = firstLastFlag
		}
	}()
	got := map[string]*commonmodels.Series{}
	for _, s := range rs.Series {
		var key []string
		for _, k := range q.groupBy {
			key = append(key, s.Tags[k])
		}
		ks := strings.Join(key, ",")
		if _, dup := got[ks]; dup {
			c.Violate(prop+"/duplicate-group", "%s: group %v returned twice", sqlText, s.Tags)
			return
		}
		got[ks] = s
	}
	keys := make([]string, 0, len(exp))
	for k := range exp {
		keys = append(keys, k)
	}
	sort.Strings(keys)
	for _, k := range keys {
		e := exp[k]
		g, ok := got[k]
		if !ok {
			c.Violate(prop+"/series-missing", "%s: expected group %v is not in the result (result has %d series)", sqlText, e.tags, len(rs.Series))
			return
		}
		for tk, tv := range e.tags {
			if g.Tags[tk] != tv {
				c.Violate(prop+"/group-tags-wrong", "%s: group %v returned with tags %v", sqlText, e.tags, g.Tags)
				return
			}
		}
		if prop == "C10" {
			continue // C10 judges the selected series and their group keys; values are C11's
		}
		vals := g.Fields[fname]
		slots := make([]int64, 0, len(e.values))
		for s := range e.values {
			slots = append(slots, s)
		}
		sort.Slice(slots, func(i, j int) bool { return slots[i] < slots[j] })
		for _, s := range slots {
			agg := fieldSpecs[q.field].agg
			want, cands := aggregate(agg, e.values[s])
			splitSlot := false
			var anyOf []float64 // quantile: the acceptable answers
			switch {
			case q.kind == "quantile":
				anyOf, cands = quantileCands(q.qv, e.values[s]), nil
				want = anyOf[0]
			case q.fn != "" && (agg == "last" || agg == "first"):
				// a function on a last / first field: the storage slot of a series holds its last / first written value
				want, splitSlot = slotFunctionTyped(q.fn, agg, e.values[s])
				cands = nil
			case q.fn == "min" || q.fn == "max":
				// min/max of a sum field: the storage slot of a series holds the sum of its points (field type),
				// the function picks among the slots of the bucket and among the series of the group
				want, splitSlot = slotFunction(q.fn, e.values[s])
			}
			gv, ok := vals[s]
			if !ok {
				c.Violate(prop+"/value-missing", "%s: group %v slot %s has no value, expected %v %v", sqlText, e.tags, fmtTime(s), want, cands)
				return
			}
			switch q.kind {
			case "rate": // per second over the query's interval
				ivs := int64(10)
				if q.interval > 10000 {
					ivs = q.interval / 1000
				}
				want /= float64(ivs)
			case "mul2": // the answer is judged through the inverse of the arithmetic (exact for these values)
				gv /= 2
			case "add10":
				gv -= 10
			case "quantile":
				for _, a := range anyOf {
					if a == gv || math.Abs(a-gv) <= 1e-9*math.Max(1, math.Abs(a)) {
						want = gv
					}
				}
			}
			if cands == nil {
				if gv != want {
					if splitSlot {
						// known finding (reported under C11 only): the partial sums of one storage slot (points written
						// at different times sit in different buffers / databases / files) are combined by the query function
						if prop == "C11" && r.pendingFirstLast == nil && firstLastFlag == nil {
							firstLastFlag = func() {
								c.Violate(prop+"/function-over-partial-sums", "%s: group %v slot %s = %v, %s over the per-slot sums of the written points is %v", sqlText, e.tags, fmtTime(s), gv, q.fn, want)
							}
						}
						continue
					}
					if r.lateWriter && q.kind != "rate" && someMissing(e.values[s], gv) {
						// asked while the late writer ran (known finding, see query()): the value is what is left when
						// some of the bucket's points are missing - the reader met a write window that was being compacted
						c.Violate(prop+"/value-missing", "%s: group %v slot %s = %v, expected %v: the answer holds only a part of the written points", sqlText, e.tags, fmtTime(s), gv, want)
						return
					}
					c.Violate(r.valueWrong(prop, e.values[s]), "%s: group %v slot %s = %v, expected %v", sqlText, e.tags, fmtTime(s), gv, want)
					return
				}
			} else {
				found := false
				for _, cv := range cands {
					if cv == gv {
						found = true
					}
				}
				if !found {
					c.Violate(r.valueWrong(prop, e.values[s]), "%s: group %v slot %s = %v, not one of the written values %v", sqlText, e.tags, fmtTime(s), gv, cands)
					return
				}
				// one series per group: first = first written point of the earliest storage slot of the bucket,
				// last = last written point of the latest one - whatever was flushed when
				// (C12: the rows travel through the broker-side batch code, which sorts a batch that spans several
				// families by timestamp - the write order of rows is only defined among rows of one timestamp)
				if (prop == "C11" || (prop == "C12" && sameSlotAndEpoch(e.values[s]) && sameTimestamp(e.values[s]))) && oneSeriesPerGroup(q) {
					if strict := strictFirstLast(fieldSpecs[q.field].agg, e.values[s]); gv != strict {
						if sameSlotAndEpoch(e.values[s]) {
							// one storage slot, written between the same two flushes: combined by write()/merge() alone
							c.Violate(r.valueWrong(prop, e.values[s]), "%s: group %v slot %s = %v, the %s written value of that storage slot is %v (written values %v)", sqlText, e.tags, fmtTime(s), gv, fieldSpecs[q.field].agg, strict, cands)
							return
						}
						if firstLastFlag == nil {
							firstLastFlag = func() {
								c.Violate(prop+"/first-last-order", "%s: group %v slot %s = %v, the %s written value of the bucket is %v (written values %v)", sqlText, e.tags, fmtTime(s), gv, fieldSpecs[q.field].agg, strict, cands)
							}
						}
					}
				}
			}
		}
		for s, v := range vals {
			if _, ok := e.values[s]; !ok {
				if q.kind == "quantile" && v == 0 {
					continue // lindb answers 0 for a slot without observations
				}
				c.Violate(prop+"/value-appeared", "%s: group %v has value %v at %s where nothing was written", sqlText, e.tags, v, fmtTime(s))
				return
			}
		}
	}
	gkeys := make([]string, 0, len(got))
	for k := range got {
		gkeys = append(gkeys, k)
	}
	sort.Strings(gkeys)
	for _, k := range gkeys {
		if _, ok := exp[k]; ok {
			continue
		}
		// a group without a value of the selected field is an empty answer for that group, not a wrong one
		// (series are selected by tags and time range before the field is looked at), as long as some series
		// that satisfies the condition carries these group tags
		empty := len(got[k].Fields[fname]) == 0
		if q.kind == "quantile" {
			// lindb answers 0 for every slot without observations
			empty = true
			for _, v := range got[k].Fields[fname] {
				empty = empty && v == 0
			}
		}
		if prop != "C10" && empty && r.someSeriesHasGroup(q, got[k].Tags) {
			c.Sim.Probe("group-without-values")
			continue
		}
		c.Violate(prop+"/series-unexpected", "%s: result contains group %v which does not satisfy the query", sqlText, got[k].Tags)
		return
	}
	c.Sim.Probe(fmt.Sprintf("groups-%d", min(len(exp), 5)))
	if len(exp) > 0 {
		switch {
		case q.kind != "":
			c.Sim.Probe("compared-" + q.kind)
		case q.field >= nSimple:
			c.Sim.Probe("compared-histogram-field")
		case q.fn != "" && q.field >= 3:
			c.Sim.Probe("compared-function-on-last-first")
		}
	}
}

func (r *run) someSeriesHasGroup(q queryDef, tags map[string]string) bool {
	for _, s := range r.series {
		if q.cond != nil && !q.cond.eval(s) {
			continue
		}
		ok := true
		for _, k := range q.groupBy {
			v, _ := tagOf(s, k)
			if tags[k] != v {
				ok = false
			}
		}
		if ok {
			return true
		}
	}
	return false
}

func condKeys(cd cond, out map[string]bool) {
	switch x := cd.(type) {
	case atom:
		out[x.key] = true
	case binary:
		condKeys(x.l, out)
		condKeys(x.r, out)
	}
}

// unknownKeys returns the tag keys used by the query which no series written so far carries.
func (r *run) unknownKeys(q queryDef, upto int) []string {
	used := map[string]bool{}
	if q.cond != nil {
		condKeys(q.cond, used)
	}
	for _, k := range q.groupBy {
		used[k] = true
	}
	written := map[string]bool{}
	for _, p := range r.points[:upto] {
		for k := range r.series[p.series].tags() {
			written[k] = true
		}
	}
	var ks []string
	for k := range used {
		if !written[k] {
			ks = append(ks, k)
		}
	}
	sort.Strings(ks)
	return ks
}

func oneSeriesPerGroup(q queryDef) bool {
	for _, g := range q.groupBy {
		if g == "id" {
			return true
		}
	}
	return false
}

// strictFirstLast: the points of one bucket of one series; first = first written point of the earliest
// storage slot, last = last written point of the latest storage slot.
func strictFirstLast(agg string, ps []point) float64 {
	best := ps[0]
	for _, p := range ps[1:] {
		ps0, ps1 := best.ts/10000, p.ts/10000
		if agg == "first" {
			if ps1 < ps0 || (ps1 == ps0 && p.order < best.order) {
				best = p
			}
		} else {
			if ps1 > ps0 || (ps1 == ps0 && p.order > best.order) {
				best = p
			}
		}
	}
	return best.value
}

// valueWrong: the signature of a wrong value. A statement asked while the late writer sends rows for its series reads
// memory databases whose write windows are being compacted under it (known finding, see query()): whatever it gets
// for a series the writer is writing to - a part of the points, the zeros of a window that was just reset, the value
// of a neighbouring slot - is that finding, not a new one.
func (r *run) valueWrong(prop string, ps []point) string {
	if r.lateWriter {
		for _, p := range ps {
			if r.lateSeries[p.series] {
				return prop + "/value-missing"
			}
		}
	}
	return prop + "/value-wrong"
}

// someMissing: got is what a non-empty proper subset of the points gives - their sum (sum fields, sums of sums) or one
// of them / one of the per-slot sums (min, max over fewer points).
func someMissing(ps []point, got float64) bool {
	if len(ps) < 2 || len(ps) > 16 {
		return false
	}
	for mask := 1; mask < 1<<len(ps)-1; mask++ {
		sum := 0.0
		for i, p := range ps {
			if mask&(1<<i) != 0 {
				sum += p.value
			}
		}
		if sum == got {
			return true
		}
	}
	return false
}

func sameSlotAndEpoch(ps []point) bool {
	for _, p := range ps[1:] {
		if p.ts/10000 != ps[0].ts/10000 || p.epoch != ps[0].epoch {
			return false
		}
	}
	return true
}

// slotFunction: min or max over the per (series, storage slot) sums of the bucket's points; split = some slot of
// a series received more than one point (its sum may exist as partial sums in several places).
func slotFunction(fn string, ps []point) (float64, bool) {
	type key struct {
		series int
		slot   int64
	}
	sums := map[key]float64{}
	count := map[key]int{}
	split := false
	for _, p := range ps {
		k := key{p.series, p.ts / 10000}
		sums[k] += p.value
		if count[k]++; count[k] > 1 {
			split = true
		}
	}
	first := true
	var out float64
	for _, v := range sums {
		if first || (fn == "min" && v < out) || (fn == "max" && v > out) {
			out, first = v, false
		}
	}
	return out, split
}

// slotFunctionTyped: sum, min or max over the per (series, storage slot) values of a last / first field, a slot
// holding its last / first written point; split = some slot of a series received more than one point.
func slotFunctionTyped(fn, agg string, ps []point) (float64, bool) {
	type key struct {
		series int
		slot   int64
	}
	vals := map[key]point{}
	split := false
	for _, p := range ps {
		k := key{p.series, p.ts / 10000}
		old, ok := vals[k]
		if ok {
			split = true
		}
		if !ok || (agg == "last" && p.order > old.order) || (agg == "first" && p.order < old.order) {
			vals[k] = p
		}
	}
	first := true
	var out float64
	for _, p := range vals {
		v := p.value
		switch {
		case first:
			out, first = v, false
		case fn == "sum":
			out += v
		case fn == "min" && v < out, fn == "max" && v > out:
			out = v
		}
	}
	return out, split
}

// quantileBuckets: the quantile of a histogram given as (upper bound, observations) pairs in ascending order of the
// bounds - the linear interpolation inside the bucket that holds the rank, as Prometheus' histogram_quantile
// (which lindb's documentation refers to); the highest bucket answers with the bound below it.
func quantileBuckets(qv float64, bounds, counts []float64) float64 {
	total := 0.0
	for _, c := range counts {
		total += c
	}
	if total == 0 {
		return 0
	}
	if len(bounds) == 1 {
		return bounds[0]
	}
	rank := qv * total
	cum, b := 0.0, len(bounds)-1
	for i := 0; i < len(bounds)-1; i++ {
		cum += counts[i]
		if cum >= rank {
			b = i
			break
		}
	}
	if b == len(bounds)-1 {
		return bounds[len(bounds)-2]
	}
	if b == 0 && bounds[0] <= 0 {
		return bounds[0]
	}
	start, below := 0.0, cum-counts[b]
	if b > 0 {
		start = bounds[b-1]
	}
	return start + (bounds[b]-start)*((rank-below)/counts[b])
}

// quantileCands: the acceptable answers for one bucket of a group. lindb stores a histogram bucket only when it
// received observations, so a bucket without any may or may not take part in the interpolation (it does when the
// group has the bucket's field somewhere in the range): the quantile over every such bucket list is accepted.
// The first entry is the quantile over all buckets.
func quantileCands(qv float64, ps []point) []float64 {
	counts := make([]float64, len(histBounds))
	for _, p := range ps {
		if p.field >= fHistBucket {
			counts[p.field-fHistBucket] += p.value
		}
	}
	var zero []int
	for i, c := range counts {
		if c == 0 {
			zero = append(zero, i)
		}
	}
	var out []float64
	for mask := 0; mask < 1<<len(zero); mask++ {
		var bs, cs []float64
		for i := range counts {
			drop := false
			for zi, z := range zero {
				if z == i && mask&(1<<zi) != 0 {
					drop = true
				}
			}
			if !drop {
				bs, cs = append(bs, histBounds[i]), append(cs, counts[i])
			}
		}
		if len(bs) > 0 {
			out = append(out, quantileBuckets(qv, bs, cs))
		}
	}
	return out
}

func sameTimestamp(ps []point) bool {
	for _, p := range ps[1:] {
		if p.ts != ps[0].ts {
			return false
		}
	}
	return true
}
