// Package rows builds storage rows through lindb's real converters (proto metric ->
// flat buffer block -> StorageRow), as the broker/replication path does.
package rows

import (
	"sort"

	protoMetricsV1 "github.com/lindb/common/proto/gen/v1/linmetrics"

	"github.com/lindb/lindb/models"
	"github.com/lindb/lindb/series/metric"
)

type Field struct {
	Name  string
	Type  protoMetricsV1.SimpleFieldType
	Value float64
}

// Hist is a histogram (compound field): Values[i] observations at or below Bounds[i], last bound +Inf.
type Hist struct {
	Bounds, Values       []float64
	Min, Max, Sum, Count float64
}

type Point struct {
	NS, Name  string
	Tags      map[string]string
	Fields    []Field
	Hist      *Hist
	Timestamp int64
}

// Block marshals the point into a size-prefixed flat metric block.
func Block(p Point) ([]byte, error) {
	m := &protoMetricsV1.Metric{Namespace: p.NS, Name: p.Name, Timestamp: p.Timestamp}
	keys := make([]string, 0, len(p.Tags))
	for k := range p.Tags {
		keys = append(keys, k)
	}
	sort.Strings(keys)
	for _, k := range keys {
		m.Tags = append(m.Tags, &protoMetricsV1.KeyValue{Key: k, Value: p.Tags[k]})
	}
	for _, f := range p.Fields {
		m.SimpleFields = append(m.SimpleFields, &protoMetricsV1.SimpleField{Name: f.Name, Type: f.Type, Value: f.Value})
	}
	if p.Hist != nil {
		m.CompoundField = &protoMetricsV1.CompoundField{Min: p.Hist.Min, Max: p.Hist.Max, Sum: p.Hist.Sum, Count: p.Hist.Count,
			Values: append([]float64(nil), p.Hist.Values...), ExplicitBounds: append([]float64(nil), p.Hist.Bounds...)}
	}
	cv := metric.NewProtoConverter(models.NewDefaultLimits())
	b, err := cv.MarshalProtoMetricV1(m)
	if err != nil {
		return nil, err
	}
	return append([]byte(nil), b...), nil
}

// StorageRows unmarshals blocks into fresh storage rows.
func StorageRows(blocks ...[]byte) []*metric.StorageRow {
	var all []byte
	for _, b := range blocks {
		all = append(all, b...)
	}
	batch := metric.NewStorageBatchRows()
	batch.UnmarshalRows(all)
	return batch.Rows()
}
