// Package pipe simulates the query pipeline (C19): real pipeline + state
// machine + baseStage.Execute + worker pool, scripted plan nodes.
package pipe

import (
	"context"
	"errors"
	"fmt"
	"math/rand"
	"time"

	commonmodels "github.com/lindb/common/models"

	"github.com/lindb/lindb/flow"
	"github.com/lindb/lindb/query"
	"github.com/lindb/lindb/query/stage"
	trackerpkg "github.com/lindb/lindb/query/tracker"

	"verifsim/core"
	"verifsim/simrt"
)

type H struct{}

func init() { core.Register(H{}) }

func (H) Name() string { return "pipe" }

const (
	outOK = iota
	outErr
	outPanic
	outPlanPanic // Plan() of the stage panics (planning runs in the parent's goroutine, before anything is submitted)
	outHookPanic // the stage's operators succeed, its Complete() hook panics (lindb's shard scan / grouping stages collect tag values there)
	outNextPanic // NextStages() of a pooled stage panics: its own plan succeeded, the panic comes while its completion plans what follows
)

// Gen: a stage tree. Op{K:"stage", T:index, A:parent (-1 root), B:outcome, C:async(1)/inline(0) | work<<1,
// S:"<shape><ops>:<pos>"}: the plan of the stage is a tree of real plan nodes - shape 'r' = the first operator is
// the plan root and the others its children, 'e' = an empty root with all operators as children (the shape of
// the shard scan and data load plans), 'c' = a chain; the outcome belongs to operator <pos>.
func (H) Gen(prop string, rng *rand.Rand, tier string) *core.Plan {
	p := &core.Plan{Harness: "pipe", Prop: "C19", Cfg: map[string]int{}}
	p.Cfg["workers"] = 1 + rng.Intn(3)
	p.Cfg["preempt_pm"] = []int{0, 20, 80, 200, 400}[rng.Intn(5)]
	p.Cfg["switch_pm"] = []int{50, 300, 600}[rng.Intn(3)]
	p.Cfg["max_steps"] = 200000
	n := 1 + rng.Intn(10)
	maxFan := 1 + rng.Intn(4)
	failP := []int{0, 10, 25}[rng.Intn(3)]
	panicP := []int{0, 0, 8}[rng.Intn(3)]
	asyncP := []int{0, 50, 80, 100}[rng.Intn(4)]
	children := map[int]int{}
	for i := 0; i < n; i++ {
		parent := -1
		if i > 0 {
			// pick a parent with room
			for tries := 0; tries < 20; tries++ {
				c := rng.Intn(i)
				if children[c] < maxFan {
					parent = c
					break
				}
			}
			if parent < 0 {
				parent = i - 1
			}
			children[parent]++
		}
		out := outOK
		if r := rng.Intn(100); r < failP {
			out = outErr
		} else if r < failP+panicP {
			out = outPanic
			switch rng.Intn(5) {
			case 0:
				out = outPlanPanic
			case 1:
				out = outHookPanic
			case 2:
				out = outNextPanic
			}
		}
		async := 0
		if rng.Intn(100) < asyncP || out == outNextPanic {
			async = 1
		}
		work := rng.Intn(4)
		nops := 1 + rng.Intn(3)
		shape := fmt.Sprintf("%c%d:%d", "rec"[rng.Intn(3)], nops, rng.Intn(nops))
		p.Ops = append(p.Ops, core.Op{K: "stage", T: i, A: int64(parent), B: int64(out), C: int64(async | work<<1), S: shape})
	}
	return p
}

type node struct {
	idx      int
	parent   int
	outcome  int
	async    bool
	work     int
	shape    byte // r, e, c
	nops     int
	pos      int
	kids     []*node
	started  int
	finished int
}

// scriptOp is an operator of a stage's plan; the operator at the stage's position carries its outcome.
type scriptOp struct {
	n   *node
	i   int
	run func(n *node, i int) error
}

func (o *scriptOp) Identifier() string { return fmt.Sprintf("s%d.op%d", o.n.idx, o.i) }
func (o *scriptOp) Execute() error     { return o.run(o.n, o.i) }

// planOf builds the stage's plan out of lindb's real plan nodes.
func planOf(n *node, run func(n *node, i int) error) stage.PlanNode {
	ops := make([]stage.PlanNode, n.nops)
	for i := range ops {
		ops[i] = stage.NewPlanNode(&scriptOp{n: n, i: i, run: run})
	}
	switch n.shape {
	case 'e':
		root := stage.NewEmptyPlanNode()
		for _, o := range ops {
			root.AddChild(o)
		}
		return root
	case 'c':
		for i := 0; i+1 < len(ops); i++ {
			ops[i].AddChild(ops[i+1])
		}
		return ops[0]
	default:
		for _, o := range ops[1:] {
			ops[0].AddChild(o)
		}
		return ops[0]
	}
}

var _ = commonmodels.OperatorStats{}

var poolSeq int

func (H) End(c *core.RunCtx, end string) (string, string) {
	return "", "scheduler ended before the harness finished"
}

func (H) Run(c *core.RunCtx) {
	sim := c.Sim
	var nodes []*node
	for _, op := range c.Plan.Ops {
		if op.K != "stage" {
			continue
		}
		n := &node{idx: len(nodes), parent: int(op.A), outcome: int(op.B), async: op.C&1 == 1, work: int(op.C >> 1), shape: 'r', nops: 1}
		if len(op.S) >= 4 {
			fmt.Sscanf(op.S[1:], "%d:%d", &n.nops, &n.pos)
			n.shape = op.S[0]
			if n.nops < 1 || n.nops > 4 {
				n.nops = 1
			}
			if n.pos < 0 || n.pos >= n.nops {
				n.pos = 0
			}
		}
		if n.parent >= n.idx || (n.idx == 0) {
			n.parent = -1
		}
		nodes = append(nodes, n)
	}
	if len(nodes) == 0 {
		return
	}
	for _, n := range nodes[1:] {
		if n.parent < 0 {
			n.parent = 0 // shrinking may orphan a node: hang it under the root
		}
		nodes[n.parent].kids = append(nodes[n.parent].kids, n)
	}
	poolSeq++
	pool := stage.VerifNewPool(fmt.Sprintf("verif-pool-%d-%d", c.Plan.Seed, poolSeq), c.Plan.C("workers", 2), 5*time.Second)
	ctx := context.Background()

	callbacks := 0
	var cbErr error
	var startedAtCb, finishedAtCb int
	totalStarted, totalFinished := 0, 0
	anyFailedStarted := false
	anyPanic := false

	run := func(n *node, i int) error {
		if i != n.pos {
			// the other operators of the plan just run (those behind a failing one must not run, but that
			// is not what this property is about)
			simrt.Yield("stage-op")
			return nil
		}
		if n.outcome == outPlanPanic {
			return nil // the panic already happened in Plan()
		}
		n.started++
		totalStarted++
		sim.Event("stage %d start", n.idx)
		for i := 0; i < n.work; i++ {
			simrt.Yield("stage-work")
			if i == 1 {
				simrt.Sleep(time.Millisecond)
			}
		}
		switch n.outcome {
		case outErr:
			anyFailedStarted = true
			n.finished++
			totalFinished++
			sim.Event("stage %d error", n.idx)
			sim.Fault("stage-error")
			return errors.New("stage failed")
		case outPanic:
			anyFailedStarted = true
			anyPanic = true
			n.finished++
			totalFinished++
			sim.Event("stage %d panic", n.idx)
			sim.Fault("stage-panic")
			panic(fmt.Sprintf("stage %d panics", n.idx))
		}
		n.finished++
		totalFinished++
		sim.Event("stage %d ok", n.idx)
		return nil
	}
	var build func(n *node) stage.Stage
	build = func(n *node) stage.Stage {
		var p = pool
		if !n.async {
			p = nil
		}
		return stage.NewVerifStage(ctx, p, fmt.Sprintf("s%d", n.idx), func() stage.PlanNode {
			if n.outcome == outPlanPanic {
				anyFailedStarted = true
				anyPanic = true
				sim.Event("stage %d plan panic", n.idx)
				sim.Fault("plan-panic")
				panic(fmt.Sprintf("planning stage %d panics", n.idx))
			}
			return planOf(n, run)
		}, func() []stage.Stage {
			if n.outcome == outNextPanic {
				anyFailedStarted = true
				anyPanic = true
				sim.Event("stage %d next-stages panic", n.idx)
				sim.Fault("next-stages-panic")
				panic(fmt.Sprintf("planning what follows stage %d panics", n.idx))
			}
			var ks []stage.Stage
			for _, k := range n.kids {
				ks = append(ks, build(k))
			}
			return ks
		}, func() {
			if n.outcome == outHookPanic {
				anyFailedStarted = true
				anyPanic = true
				sim.Event("stage %d completion hook panic", n.idx)
				sim.Fault("complete-hook-panic")
				panic(fmt.Sprintf("completion hook of stage %d panics", n.idx))
			}
		})
	}
	pl := query.NewExecutePipeline(trackerpkg.NewStageTracker(flow.NewTaskContextWithTimeout(ctx, time.Hour)), func(err error) {
		callbacks++
		if callbacks == 1 {
			cbErr = err
			startedAtCb, finishedAtCb = totalStarted, totalFinished
		}
		sim.Event("callback #%d err=%v", callbacks, err)
	})
	timedOut := false
	sim.Spawn("watchdog", func() {
		simrt.Sleep(60 * time.Second)
		timedOut = true
	})
	sim.Spawn("request", func() {
		pl.Execute(build(nodes[0]))
	})
	// Simulated time only advances when no task is runnable, so reaching the
	// watchdog means every task ran until it blocked: no scheduler starvation.
	sim.Await(func() bool { return callbacks > 0 || timedOut })
	c.Oracle()
	if callbacks == 0 {
		c.Violate("C19/no-completion", "pipeline never signalled completion: %d stages started, %d finished, panic=%v", totalStarted, totalFinished, anyPanic)
		return
	}
	// let everything still running finish, then judge
	simrt.Sleep(10 * time.Second)
	c.Oracle()
	if callbacks != 1 {
		c.Violate("C19/completed-twice", "completion callback fired %d times", callbacks)
		return
	}
	if !anyPanic && startedAtCb != finishedAtCb {
		c.Violate("C19/completed-before-stages-finished", "at the callback %d stages had started but only %d finished", startedAtCb, finishedAtCb)
		return
	}
	if !anyPanic && totalStarted != startedAtCb {
		c.Violate("C19/stage-started-after-completion", "%d stages started after the completion callback", totalStarted-startedAtCb)
		return
	}
	if anyFailedStarted && cbErr == nil {
		which := "failed"
		if anyPanic {
			which = "panicked"
		}
		c.Violate("C19/error-lost", "a stage %s but the completion callback carried no error (%d stages started)", which, totalStarted)
		return
	}
	sim.Probe(fmt.Sprintf("stages-%d", len(nodes)))
	if anyFailedStarted {
		sim.Probe("failure-reported")
	}
}
