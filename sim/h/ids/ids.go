// Package ids simulates name -> ID assignment (C09): one real MetricMetaDatabase
// shared by a "metadata worker" task and 1-2 "shard index worker" tasks, each with
// its own real MetricIndexDatabase, exactly the callers tsdb/memdb has; flush,
// reopen and process death inside flushes.
package ids

import (
	"errors"
	"fmt"
	"github.com/lindb/lindb/constants"
	"github.com/lindb/lindb/models"
	"math/rand"
	"path/filepath"
	"sort"
	"strings"
	"time"

	protoMetricsV1 "github.com/lindb/common/proto/gen/v1/linmetrics"
	"github.com/lindb/roaring"

	"github.com/lindb/lindb/index"
	"github.com/lindb/lindb/kv"
	"github.com/lindb/lindb/kv/table"
	"github.com/lindb/lindb/kv/version"
	"github.com/lindb/lindb/series/field"
	"github.com/lindb/lindb/series/metric"
	"github.com/lindb/lindb/series/tag"

	"verifsim/core"
	"verifsim/h/rows"
	"verifsim/simrt"
)

type H struct{}

func init() { core.Register(H{}) }

func (H) Name() string { return "ids" }

var (
	nss     = []string{"ns-a", "default-ns"}
	names   = []string{"cpu", "mem", "disk.io", "net"}
	tagKeys = []string{"host", "zone", "app"}
	tagVals = []string{"h1", "h2", "z-eu", "svc", "h10"}
	fields  = []string{"f0", "f1", "f2"}
)

// tag sets: index -> map
func tagSet(i int) map[string]string {
	m := map[string]string{}
	// bits select keys, value derived
	for k := 0; k < len(tagKeys); k++ {
		if (i>>k)&1 == 1 {
			m[tagKeys[k]] = tagVals[(i+k)%len(tagVals)]
		}
	}
	return m
}

func (H) Gen(prop string, rng *rand.Rand, tier string) *core.Plan {
	p := &core.Plan{Harness: "ids", Prop: "C09", Cfg: map[string]int{}}
	shards := 1 + rng.Intn(2)
	p.Cfg["shards"] = shards
	p.Cfg["preempt_pm"] = []int{2, 10, 40, 120}[rng.Intn(4)]
	p.Cfg["switch_pm"] = []int{50, 300, 600}[rng.Intn(3)]
	p.Cfg["crash_pm"] = []int{2, 8, 30}[rng.Intn(3)]
	few := rng.Intn(2) == 0 // small universe: more same-name races
	// a third of the plans compact the kv families of the metadata and index stores (the stores' own job does it when a
	// family has enough level-0 files): ids and names must come out of the mergers as they went in
	compactions := rng.Intn(3) == 0
	phases := 1 + rng.Intn(3)
	for ph := 0; ph < phases; ph++ {
		if compactions && rng.Intn(2) == 0 {
			// several flushes of the same dictionaries, then their compaction, then the names again (this phase and,
			// after the reopen / crash that may end it, the next one)
			ns, nm := rng.Intn(len(nss)), rng.Intn(len(names))
			if few {
				ns, nm = 0, rng.Intn(2)
			}
			for k := 2 + rng.Intn(2); k > 0; k-- {
				p.Ops = append(p.Ops, core.Op{K: "field", T: 0, A: int64(ns), B: int64(nm), C: int64(rng.Intn(len(fields)))},
					core.Op{K: "series", T: 1 + rng.Intn(shards), A: int64(ns), B: int64(nm), C: int64(rng.Intn(8))},
					core.Op{K: "flushmeta", T: 0}, core.Op{K: "flushindex", T: 1 + rng.Intn(shards)})
			}
			p.Ops = append(p.Ops, core.Op{K: "compact"})
		}
		n := 2 + rng.Intn(10)
		for i := 0; i < n; i++ {
			ns, nm := rng.Intn(len(nss)), rng.Intn(len(names))
			if few {
				ns, nm = 0, rng.Intn(2)
			}
			switch r := rng.Intn(100); {
			case r < 25:
				p.Ops = append(p.Ops, core.Op{K: "metric", T: 0, A: int64(ns), B: int64(nm)})
			case r < 40:
				p.Ops = append(p.Ops, core.Op{K: "field", T: 0, A: int64(ns), B: int64(nm), C: int64(rng.Intn(len(fields)))})
			case r < 88:
				p.Ops = append(p.Ops, core.Op{K: "series", T: 1 + rng.Intn(shards), A: int64(ns), B: int64(nm), C: int64(rng.Intn(8))})
			case r < 91 && ph > 0:
				// adversarial schedule: the caller is held at its C-th yield point while another caller creates the
				// same name and a complete flush cycle passes, then continues; afterwards the name is asked again
				p.Ops = append(p.Ops, core.Op{K: "suspend", T: rng.Intn(1 + shards), A: int64(ns), B: int64(nm), C: int64(1 + rng.Intn(90)), S: fmt.Sprint(rng.Intn(8))})
			case r < 94:
				p.Ops = append(p.Ops, core.Op{K: "flushmeta", T: 0})
			case r < 96 && compactions:
				p.Ops = append(p.Ops, core.Op{K: "compact"})
			default:
				p.Ops = append(p.Ops, core.Op{K: "flushindex", T: 1 + rng.Intn(shards)})
			}
		}
		p.Ops = append(p.Ops, core.Op{K: "end", S: []string{"sync", "flush", "reopen", "reopen", "crash", "crash"}[rng.Intn(6)]})
	}
	p.Cfg["maporder"] = rng.Intn(2)                       // tape-chosen iteration order of Go maps in the code under test
	p.Cfg["serieslimit"] = []int{0, 0, 2, 3}[rng.Intn(4)] // series limit per metric of the database (0 = the default)
	if rng.Intn(4) == 0 {
		p.Cfg["ioerr_pm"] = []int{30, 100, 300}[rng.Intn(3)]
		p.Cfg["ioerr_max"] = 1 + rng.Intn(2)
	}
	return p
}

func (H) End(c *core.RunCtx, end string) (string, string) {
	return "", "scheduler ended before the harness finished"
}

type ledger struct {
	metricID map[string]uint32 // ns|name -> id
	metricOf map[uint32]string // id -> ns|name
	fieldID  map[string]uint32 // metricID|field -> id
	tagKeyID map[string]uint32 // metricID|key -> id
	keyOwner map[uint32]string // tag key id -> metricID|key
	tagValID map[string]uint32 // tagKeyID|value -> id
	valOwner map[string]string // tagKeyID|id -> value
	seriesID map[string]uint32 // shard|metricID|tagset -> id
	serOwner map[string]string // shard|metricID|id -> tagset
}

func newLedger() *ledger {
	return &ledger{metricID: map[string]uint32{}, metricOf: map[uint32]string{}, fieldID: map[string]uint32{}, tagKeyID: map[string]uint32{},
		keyOwner: map[uint32]string{}, tagValID: map[string]uint32{}, valOwner: map[string]string{}, seriesID: map[string]uint32{}, serOwner: map[string]string{}}
}

type node struct {
	c      *core.RunCtx
	dir    string
	meta   index.MetricMetaDatabase
	idx    map[int]index.MetricIndexDatabase
	l      *ledger
	inc    int
	dead   bool
	armed  bool
	crashP float64
	// names whose creating call was in flight when the process died / whose flush never completed may be lost
	afterRestart    bool
	flushedMeta     map[string]bool
	maybeLostSeries map[string]bool
	postOwner       map[string]string // shard|metric|seriesID -> series, kept while the postings may contain the ID
	ioTasks         map[int]bool      // tasks running a flush operation in which an I/O error may be injected
	ioLeft          int
	ioFailed        map[int]bool // tasks whose file-system operation was failed
}

// flushErr judges the error of a flush: one that an injected I/O error explains is the system working as
// intended, anything else is harness trouble.
func (n *node) flushErr(what string, err error) {
	if err == nil {
		return
	}
	if t := n.c.Sim.CurTask(); n.ioFailed[t] {
		delete(n.ioFailed, t)
		n.c.Sim.Probe("flush-failed-by-io-error")
		n.c.Sim.Event("%s failed: %v", what, err)
		return
	}
	n.c.Anomaly("%s: %v", what, err)
}

// record checks a returned ID against the ledger: same name -> same ID, different names -> different IDs.
func (n *node) record(kind string, ids map[string]uint32, owner func(id uint32) (string, bool), setOwner func(id uint32, name string), name string, id uint32) {
	c := n.c
	c.Oracle()
	if prev, ok := ids[name]; ok {
		if prev != id {
			c.Violate("C09/"+kind+"-id-changed", "%s %q was given ID %d before and %d now", kind, name, prev, id)
		}
		return
	}
	if other, ok := owner(id); ok && other != name {
		c.Violate("C09/"+kind+"-id-shared", "%s %q received ID %d which %q already has", kind, name, id, other)
		return
	}
	ids[name] = id
	setOwner(id, name)
}

func (n *node) genMetric(ns, name string) (metric.ID, bool) {
	// names reach the metadata database as sub-slices of a block buffer that the write path reuses for the
	// next block: whatever the database keeps must be a copy
	nsb, nameb := []byte(ns), []byte(name)
	id, err := n.meta.GenMetricID(nsb, nameb)
	scribble(nsb)
	scribble(nameb)
	if err != nil {
		n.c.Anomaly("GenMetricID: %v", err)
		return 0, false
	}
	key := ns + "|" + name
	n.c.Sim.Event("metric %s -> %d", key, id)
	n.record("metric", n.l.metricID, func(i uint32) (string, bool) { s, ok := n.l.metricOf[i]; return s, ok },
		func(i uint32, s string) { n.l.metricOf[i] = s }, key, uint32(id))
	return id, true
}

// scribble overwrites a buffer the caller owns again after the call.
func scribble(b []byte) {
	for i := range b {
		b[i] = '#'
	}
}

func (n *node) genField(mid metric.ID, f string) {
	id, err := n.meta.GenFieldID(mid, field.Meta{Name: field.Name(f), Type: field.SumField})
	if err != nil {
		n.c.Anomaly("GenFieldID: %v", err)
		return
	}
	key := fmt.Sprintf("%d|%s", mid, f)
	owners := map[uint32]string{}
	for k, v := range n.l.fieldID {
		if strings.HasPrefix(k, fmt.Sprintf("%d|", mid)) {
			owners[v] = k
		}
	}
	n.record("field", n.l.fieldID, func(i uint32) (string, bool) { s, ok := owners[i]; return s, ok }, func(uint32, string) {}, key, uint32(id))
}

func (n *node) genSeries(shard int, ns, name string, ts int) {
	mid, ok := n.genMetric(ns, name)
	if !ok || n.c.Violated() {
		return
	}
	tags := tagSet(ts)
	blk, err := rows.Block(rows.Point{NS: ns, Name: name, Tags: tags, Timestamp: 946684800000,
		Fields: []rows.Field{{Name: "f0", Type: protoMetricsV1.SimpleFieldType_DELTA_SUM, Value: 1}}})
	if err != nil {
		n.c.Anomaly("row: %v", err)
		return
	}
	row := rows.StorageRows(blk)[0]
	idb := n.idx[shard]
	// the postings must not already use the ID a new series receives
	before, err := idb.GetSeriesIDsForMetric(mid)
	if err != nil {
		n.c.Anomaly("GetSeriesIDsForMetric: %v", err)
		return
	}
	sid, err := idb.GenSeriesID(mid, row)
	scribble(blk) // the row's block is reused once the row is done
	if err != nil && errors.Is(err, constants.ErrTooManySeries) && n.c.Plan.C("serieslimit", 0) > 0 {
		// the metric has reached its series limit: the series is rejected and holds no ID
		n.c.Sim.Probe("series-rejected-by-limit")
		return
	}
	if err != nil {
		n.c.Anomaly("GenSeriesID: %v", err)
		return
	}
	key := fmt.Sprintf("%d|%d|%d", shard, mid, ts)
	n.c.Sim.Event("series %s -> %d (postings before: %v)", key, sid, before.ToArray())
	prefix := fmt.Sprintf("%d|%d|", shard, mid)
	old, hadOld := n.l.seriesID[key]
	if n.maybeLostSeries[key] {
		// the process died since this series was created: its dictionary entry may be lost, then a new
		// ID is legitimate (but must not be one the postings already use for another series)
		delete(n.maybeLostSeries, key)
		delete(n.l.seriesID, key)
		delete(n.l.serOwner, fmt.Sprintf("%s%d", prefix, old))
		if sid == old {
			n.c.Sim.Probe("series-survived-crash")
		} else {
			n.c.Sim.Probe("series-recreated-after-crash")
		}
	}
	_, known := n.l.seriesID[key]
	n.record("series", n.l.seriesID, func(i uint32) (string, bool) { s, ok := n.l.serOwner[fmt.Sprintf("%s%d", prefix, i)]; return s, ok },
		func(i uint32, s string) { n.l.serOwner[fmt.Sprintf("%s%d", prefix, i)] = s }, key, sid)
	_ = hadOld
	pkey := fmt.Sprintf("%s%d", prefix, sid)
	if owner, ok := n.postOwner[pkey]; !known && before.Contains(sid) && !n.c.Violated() && ok && owner != key {
		// the ledger knows which series the index entries (postings) use this ID for
		n.c.Violate("C09/series-id-reused-from-postings", "new series %s received ID %d which the metric's postings already use for series %s", key, sid, owner)
	}
	if n.c.Violated() {
		return
	}
	n.postOwner[pkey] = key
	// tag keys and tag values of the row, as the index database generated them
	tk := make([]string, 0, len(tags))
	for k := range tags {
		tk = append(tk, k)
	}
	sort.Strings(tk)
	for _, k := range tk {
		kid, err := n.meta.GenTagKeyID(mid, []byte(k))
		if err != nil {
			n.c.Anomaly("GenTagKeyID: %v", err)
			return
		}
		kkey := fmt.Sprintf("%d|%s", mid, k)
		n.record("tagkey", n.l.tagKeyID, func(i uint32) (string, bool) { s, ok := n.l.keyOwner[i]; return s, ok },
			func(i uint32, s string) { n.l.keyOwner[i] = s }, kkey, uint32(kid))
		if n.c.Violated() {
			return
		}
		vid, err := n.meta.GenTagValueID(kid, []byte(tags[k]))
		if err != nil {
			n.c.Anomaly("GenTagValueID: %v", err)
			return
		}
		vkey := fmt.Sprintf("%d|%s", kid, tags[k])
		n.record("tagvalue", n.l.tagValID, func(i uint32) (string, bool) { s, ok := n.l.valOwner[fmt.Sprintf("%d|%d", kid, i)]; return s, ok },
			func(i uint32, s string) { n.l.valOwner[fmt.Sprintf("%d|%d", kid, i)] = s }, vkey, vid)
		if n.c.Violated() {
			return
		}
	}
}

func (n *node) open() error {
	kv.InitStoreManager(kv.VerifNewStoreManager())
	var err error
	if l := n.c.Plan.C("serieslimit", 0); l > 0 {
		limits := models.NewDefaultLimits()
		limits.MaxSeriesPerMetric = uint32(l)
		models.SetDatabaseLimits("db", limits)
	} else {
		models.SetDatabaseLimits("db", models.NewDefaultLimits())
	}
	n.meta, err = index.NewMetricMetaDatabase("db", filepath.Join(n.dir, "meta"))
	if err != nil {
		return err
	}
	shards := n.c.Plan.C("shards", 1)
	n.idx = map[int]index.MetricIndexDatabase{}
	for s := 1; s <= shards; s++ {
		n.idx[s], err = index.NewMetricIndexDatabase(filepath.Join(n.dir, fmt.Sprintf("shard%d", s), "index"), n.meta)
		if err != nil {
			return err
		}
	}
	return nil
}

// afterRecovery: every name found in the recovered dictionaries has the ID it had before.
// IDs handed out but lost in a crash may be skipped; lost names are forgotten by the ledger.
func (n *node) afterRecovery(crashed bool) {
	c, l := n.c, n.l
	c.Oracle()
	keys := make([]string, 0, len(l.metricID))
	for k := range l.metricID {
		keys = append(keys, k)
	}
	sort.Strings(keys)
	for _, k := range keys {
		parts := strings.SplitN(k, "|", 2)
		id, err := n.meta.GetMetricID(parts[0], parts[1])
		if err != nil {
			if !crashed {
				c.Violate("C09/flushed-metric-lost", "metric %q was flushed and is gone after a clean reopen", k)
				return
			}
			// lost (never flushed): forget it and everything that hangs off its ID
			old := l.metricID[k]
			delete(l.metricID, k)
			delete(l.metricOf, old)
			n.forgetMetric(old)
			continue
		}
		if uint32(id) != l.metricID[k] {
			c.Violate("C09/metric-id-changed-by-restart", "metric %q had ID %d, after restart %d", k, l.metricID[k], id)
			return
		}
	}
	// tag keys / fields through the schema, tag values through the dictionaries
	kk := make([]string, 0, len(l.tagKeyID))
	for k := range l.tagKeyID {
		kk = append(kk, k)
	}
	sort.Strings(kk)
	for _, k := range kk {
		var mid uint32
		var key string
		fmt.Sscanf(k, "%d|", &mid)
		key = k[strings.Index(k, "|")+1:]
		schema, err := n.meta.GetSchema(metric.ID(mid))
		found := false
		if err == nil && schema != nil {
			if tm, ok := schema.TagKeys.Find(key); ok {
				found = true
				if uint32(tm.ID) != l.tagKeyID[k] {
					c.Violate("C09/tagkey-id-changed-by-restart", "tag key %q had ID %d, after restart %d", k, l.tagKeyID[k], tm.ID)
					return
				}
			}
		}
		if !found && !crashed {
			c.Violate("C09/flushed-tagkey-lost", "tag key %q was flushed and is gone after a clean reopen", k)
			return
		}
		if !found {
			old := l.tagKeyID[k]
			delete(l.tagKeyID, k)
			delete(l.keyOwner, old)
			n.forgetTagKey(old)
		}
	}
	vk := make([]string, 0, len(l.tagValID))
	for k := range l.tagValID {
		vk = append(vk, k)
	}
	sort.Strings(vk)
	for _, k := range vk {
		var kid uint32
		fmt.Sscanf(k, "%d|", &kid)
		val := k[strings.Index(k, "|")+1:]
		want := l.tagValID[k]
		got := map[uint32]string{}
		if err := n.meta.CollectTagValues(tag.KeyID(kid), roaring.BitmapOf(want), got); err != nil {
			c.Anomaly("CollectTagValues: %v", err)
			return
		}
		if v, ok := got[want]; ok {
			if v != val {
				c.Violate("C09/tagvalue-id-reassigned-by-restart", "tag value ID %d of key %d meant %q, after restart %q", want, kid, val, v)
				return
			}
		} else if !crashed {
			c.Violate("C09/flushed-tagvalue-lost", "tag value %q was flushed and is gone after a clean reopen", k)
			return
		} else {
			delete(l.tagValID, k)
			delete(l.valOwner, fmt.Sprintf("%d|%d", kid, want))
		}
	}
	fk := make([]string, 0, len(l.fieldID))
	for k := range l.fieldID {
		fk = append(fk, k)
	}
	sort.Strings(fk)
	for _, k := range fk {
		var mid uint32
		fmt.Sscanf(k, "%d|", &mid)
		fname := k[strings.Index(k, "|")+1:]
		schema, err := n.meta.GetSchema(metric.ID(mid))
		found := false
		if err == nil && schema != nil {
			if fm, ok := schema.Fields.Find(field.Name(fname)); ok {
				found = true
				if uint32(fm.ID) != l.fieldID[k] {
					c.Violate("C09/field-id-changed-by-restart", "field %q had ID %d, after restart %d", k, l.fieldID[k], fm.ID)
					return
				}
			}
		}
		if !found && !crashed {
			c.Violate("C09/flushed-field-lost", "field %q was flushed and is gone after a clean reopen", k)
			return
		}
		if !found {
			delete(l.fieldID, k)
		}
	}
	// series: the dictionary has no get-only lookup; a series that resolves again is checked by
	// the next GenSeriesID (same ID or, if lost, an ID not used by the postings).  Series whose
	// metric was lost are forgotten above.  The others are marked "may be lost".
	if crashed {
		n.maybeLostSeries = map[string]bool{}
		sk := make([]string, 0, len(l.seriesID))
		for k := range l.seriesID {
			sk = append(sk, k)
		}
		sort.Strings(sk)
		for _, k := range sk {
			var shard int
			var mid uint32
			fmt.Sscanf(k, "%d|%d|", &shard, &mid)
			old := l.seriesID[k]
			idb := n.idx[shard]
			var postings *roaring.Bitmap
			if idb != nil {
				postings, _ = idb.GetSeriesIDsForMetric(metric.ID(mid))
			}
			if postings == nil || !postings.Contains(old) {
				// neither postings nor (flushed after them) the dictionary can still hold it: the ID is free again
				delete(l.seriesID, k)
				delete(l.serOwner, fmt.Sprintf("%d|%d|%d", shard, mid, old))
				delete(n.postOwner, fmt.Sprintf("%d|%d|%d", shard, mid, old))
				continue
			}
			// index entries still use the ID; the dictionary entry may or may not have survived
			n.maybeLostSeries[k] = true
		}
	}
}

func (n *node) forgetMetric(mid uint32) {
	l := n.l
	p := fmt.Sprintf("%d|", mid)
	for k, v := range l.tagKeyID {
		if strings.HasPrefix(k, p) {
			delete(l.tagKeyID, k)
			delete(l.keyOwner, v)
			n.forgetTagKey(v)
		}
	}
	for k := range l.fieldID {
		if strings.HasPrefix(k, p) {
			delete(l.fieldID, k)
		}
	}
	for k, v := range l.seriesID {
		parts := strings.SplitN(k, "|", 3)
		if parts[1] == fmt.Sprint(mid) {
			delete(l.seriesID, k)
			delete(l.serOwner, fmt.Sprintf("%s|%s|%d", parts[0], parts[1], v))
		}
	}
}

func (n *node) forgetTagKey(kid uint32) {
	l := n.l
	p := fmt.Sprintf("%d|", kid)
	for k, v := range l.tagValID {
		if strings.HasPrefix(k, p) {
			delete(l.tagValID, k)
			delete(l.valOwner, fmt.Sprintf("%d|%d", kid, v))
		}
	}
}

func (H) Run(c *core.RunCtx) {
	sim := c.Sim
	n := &node{c: c, dir: c.Dir, l: newLedger(), crashP: float64(c.Plan.C("crash_pm", 8)) / 1000, flushedMeta: map[string]bool{}, postOwner: map[string]string{}, ioFailed: map[int]bool{}, ioTasks: map[int]bool{}}
	pre := func(op, path string) {
		if !n.armed || n.dead || sim.CurInc() != n.inc {
			return
		}
		if sim.Tape.Chance(n.crashP) {
			n.dead = true
			sim.Fault("crash@" + op)
			sim.Event("crash before %s %s", op, strings.TrimPrefix(path, c.Dir))
			sim.Kill(n.inc)
		}
	}
	kv.VerifSetFS(pre)
	version.VerifSetFS(pre)
	table.VerifSetFS(pre)
	if pm := c.Plan.C("ioerr_pm", 0); pm > 0 {
		// a table write of a metadata / index flush fails with an I/O error (disk full): the flush reports it,
		// what it was about to persist stays in memory and the next flush has to persist it
		n.ioLeft = c.Plan.C("ioerr_max", 1)
		table.VerifSetFSFail(func(op, path string) error {
			if !n.ioTasks[sim.CurTask()] || n.ioLeft == 0 || n.dead || sim.CurInc() != n.inc || !(op == "write" || op == "sync" || op == "flush") {
				return nil
			}
			if !sim.Tape.Chance(float64(pm) / 1000) {
				return nil
			}
			n.ioLeft--
			n.ioFailed[sim.CurTask()] = true
			sim.Fault("io-error@" + op)
			sim.Event("injected I/O error at %s %s", op, strings.TrimPrefix(path, c.Dir))
			return fmt.Errorf("%s: injected: no space left on device", op)
		})
	}
	defer func() {
		kv.VerifSetFS(nil)
		version.VerifSetFS(nil)
		table.VerifSetFS(nil)
		table.VerifSetFSFail(nil)
		sim.OnYield = nil
	}()
	sim.OnYield = func(label string) {
		// process death around the counter file: before/after its stores and sync
		if strings.HasPrefix(label, "index.Sync") || strings.HasPrefix(label, "index.Flush") || strings.HasPrefix(label, "index.flush") {
			pre("yield", label)
		}
	}

	var phase []core.Op
	needOpen := true
	crashedBefore := false
	for _, op := range c.Plan.Ops {
		if c.Violated() || c.Res.Anomaly != "" {
			return
		}
		if op.K != "end" {
			phase = append(phase, op)
			continue
		}
		ops := phase
		phase = nil
		n.inc = sim.NewIncarnation()
		n.dead = false
		n.armed = op.S == "crash"
		done := 0
		total := 0
		opened := !needOpen
		var openErr error
		// the incarnation's boot task (re)opens the databases
		if needOpen {
			sim.SpawnIn(n.inc, "boot", func() {
				armed := n.armed
				n.armed = false
				openErr = n.open()
				if openErr == nil {
					n.afterRecovery(crashedBefore)
				}
				n.armed = armed
				opened = true
			})
			sim.Await(func() bool { return opened || n.dead })
			if openErr != nil {
				c.Violate("C09/reopen-failed", "opening the index databases failed: %v", openErr)
				return
			}
			needOpen = false
			crashedBefore = false
		}
		if c.Violated() {
			return
		}
		byTask := map[int][]core.Op{}
		for _, o := range ops {
			byTask[o.T] = append(byTask[o.T], o)
		}
		tids := make([]int, 0, len(byTask))
		for t := range byTask {
			tids = append(tids, t)
		}
		sort.Ints(tids)
		flushing := 0
		metaFlushing := 0
		idxFlushing := map[int]int{} // shard -> index flushes in flight (shard.FlushIndex lets one run at a time)
		for _, t := range tids {
			mine := byTask[t]
			total++
			t := t
			sim.SpawnIn(n.inc, fmt.Sprintf("worker%d", t), func() {
				for _, o := range mine {
					if c.Violated() {
						break
					}
					switch o.K {
					case "metric":
						n.genMetric(nss[o.A%2], names[o.B%4])
					case "field":
						if mid, ok := n.genMetric(nss[o.A%2], names[o.B%4]); ok && !c.Violated() {
							n.genField(mid, fields[o.C%3])
						}
					case "series":
						shard := o.T
						if n.idx[shard] == nil {
							shard = 1
						}
						n.genSeries(shard, nss[o.A%2], names[o.B%4], int(o.C%8))
					case "suspend":
						ts := int(atoiS(o.S) % 8)
						call := func() {
							if o.T == 0 {
								n.genMetric(nss[o.A%2], names[o.B%4])
								return
							}
							shard := o.T
							if n.idx[shard] == nil {
								shard = 1
							}
							n.genSeries(shard, nss[o.A%2], names[o.B%4], ts)
						}
						// the shard's worker handles a flush event right before the row: the index is switched by the worker
						// itself (never in the middle of a call), the flush runs in the background while the call is held
						preparedShard := 0
						if o.T > 0 {
							shard := o.T
							if n.idx[shard] == nil {
								shard = 1
							}
							if idxFlushing[shard] == 0 {
								idxFlushing[shard]++
								n.idx[shard].PrepareFlush()
								preparedShard = shard
							}
						}
						me, count, held, released := sim.CurTask(), 0, false, false
						prev := sim.OnYield
						sim.OnYield = func(label string) {
							if prev != nil {
								prev(label)
							}
							if held || n.dead || sim.CurTask() != me {
								return
							}
							if count++; count != int(o.C) {
								return
							}
							held = true
							sim.Fault("caller-suspended")
							sim.Event("caller held at yield #%d %s", count, label)
							flushing++ // the phase ends only after the competitor is done
							sim.SpawnIn(n.inc, "competitor", func() {
								defer func() { released = true; flushing-- }()
								// another caller of the same metric name (every shard's index worker and the metadata worker
								// call GenMetricID on the shared metadata database; series ids of one index database
								// are generated by its own worker only, so the competitor stays at the metric level)
								n.genMetric(nss[o.A%2], names[o.B%4])
								sim.Await(func() bool { return metaFlushing == 0 || n.dead })
								if n.dead {
									return
								}
								metaFlushing++
								snapshot := n.snapshotMetricNames()
								n.meta.PrepareFlush()
								if err := n.meta.Flush(); err == nil {
									for _, k := range snapshot {
										n.flushedMeta[k] = true
									}
								}
								metaFlushing--
								if preparedShard > 0 {
									// the background flush of what the caller's worker switched before the call
									_ = n.idx[preparedShard].Flush()
									idxFlushing[preparedShard]--
								}
							})
							// the held caller may sit inside a critical section the competitor needs: give up after a
							// while of simulated time (which only passes when nobody can run)
							t0 := sim.Elapsed()
							sim.Await(func() bool { return released || n.dead || sim.Elapsed()-t0 > 200*time.Millisecond })
						}
						call()
						sim.OnYield = prev
						if preparedShard > 0 && !held && !n.dead {
							// the call was over before the yield chosen for the hold: the flush runs in the background as usual
							flushing++
							ps := preparedShard
							sim.SpawnIn(n.inc, "flushindex", func() {
								_ = n.idx[ps].Flush()
								idxFlushing[ps]--
								flushing--
							})
						}
						if !n.dead && !c.Violated() {
							call() // a later caller: the name must still have its id
						}
					case "flushmeta":
						// as tsdb/memdb's metadata worker: PrepareFlush in the worker, Flush in its own goroutine
						// the flush checker never starts a flush of a database while one is running
						sim.Await(func() bool { return metaFlushing == 0 })
						metaFlushing++ // before anything that can yield: the competitor of a suspend op waits on it too
						snapshot := n.snapshotMetricNames()
						n.meta.PrepareFlush()
						flushing++
						sim.SpawnIn(n.inc, "flushmeta", func() {
							defer func() { metaFlushing-- }()
							n.ioTasks[sim.CurTask()] = true
							err := n.meta.Flush()
							delete(n.ioTasks, sim.CurTask())
							if err != nil {
								n.flushErr("meta flush", err)
							} else {
								for _, k := range snapshot {
									n.flushedMeta[k] = true
								}
							}
							flushing--
						})
					case "compact":
						sim.Fault("kv-compaction")
						flushing++
						sim.SpawnIn(n.inc, "compact", func() {
							defer func() { flushing-- }()
							stores := kv.GetStoreManager().GetStores()
							sort.Slice(stores, func(i, j int) bool { return stores[i].Name() < stores[j].Name() })
							var fams []kv.Family
							for _, st := range stores {
								fns := st.ListFamilyNames()
								sort.Strings(fns)
								for _, fn := range fns {
									if f := st.GetFamily(fn); f != nil {
										f.Compact()
										fams = append(fams, f)
									}
								}
							}
							sim.Await(func() bool {
								for _, f := range fams {
									if kv.VerifFamilyBusy(f) {
										return false
									}
								}
								return true
							})
						})
					case "flushindex":
						shard := o.T
						if n.idx[shard] == nil {
							shard = 1
						}
						if idxFlushing[shard] > 0 {
							// shard.FlushIndex: "another flush process is running" - nothing is switched
							sim.Probe("flushindex-skipped")
							break
						}
						idxFlushing[shard]++
						idb := n.idx[shard]
						idb.PrepareFlush()
						flushing++
						sim.SpawnIn(n.inc, "flushindex", func() {
							n.ioTasks[sim.CurTask()] = true
							err := idb.Flush()
							delete(n.ioTasks, sim.CurTask())
							n.flushErr("index flush", err)
							idxFlushing[shard]--
							flushing--
						})
					}
				}
				done++
			})
		}
		sim.Await(func() bool { return n.dead || (done == total && flushing == 0) })
		if c.Violated() {
			return
		}
		switch {
		case n.dead:
			needOpen, crashedBefore = true, true
		case op.S == "crash":
			// the process dies while idle
			sim.Fault("crash-idle")
			n.dead = true
			sim.Kill(n.inc)
			needOpen, crashedBefore = true, true
		case op.S == "flush" || op.S == "reopen":
			fin := false
			sim.SpawnIn(n.inc, "flushall", func() {
				snapshot := n.snapshotMetricNames()
				// two flush cycles: a cycle whose Flush was skipped (one already running) leaves a prepared
				// immutable store behind, and a single cycle then persists that one but not the mutable store
				for cycle := 0; cycle < 2; cycle++ {
					n.meta.PrepareFlush()
					if err := n.meta.Flush(); err != nil {
						c.Anomaly("meta flush: %v", err)
					}
					for _, s := range []int{1, 2} {
						if idb := n.idx[s]; idb != nil {
							idb.PrepareFlush()
							if err := idb.Flush(); err != nil {
								c.Anomaly("index flush: %v", err)
							}
						}
					}
				}
				for _, k := range snapshot {
					n.flushedMeta[k] = true
				}
				if op.S == "reopen" {
					for _, s := range []int{1, 2} {
						if idb := n.idx[s]; idb != nil {
							_ = idb.Close()
						}
					}
					_ = n.meta.Close()
					sim.Fault("close-reopen")
				}
				fin = true
			})
			sim.Await(func() bool { return fin })
			if op.S == "reopen" {
				sim.Kill(n.inc)
				needOpen = true
			}
		}
	}
	if needOpen && !c.Violated() {
		// final recovery check
		n.inc = sim.NewIncarnation()
		n.armed = false
		fin := false
		sim.SpawnIn(n.inc, "boot", func() {
			if err := n.open(); err != nil {
				c.Violate("C09/reopen-failed", "opening the index databases failed: %v", err)
			} else {
				n.afterRecovery(crashedBefore)
				// names created after recovery must not collide with anything that survived
				for i := 0; i < 4 && !c.Violated(); i++ {
					n.genSeries(1, nss[i%2], names[i%4], i)
				}
			}
			fin = true
		})
		sim.Await(func() bool { return fin })
	}
	_ = simrt.S
}

func (n *node) snapshotMetricNames() []string {
	var out []string
	for k := range n.l.metricID {
		out = append(out, k)
	}
	sort.Strings(out)
	return out
}

func atoiS(s string) int64 {
	var n int64
	for _, ch := range s {
		if ch >= '0' && ch <= '9' {
			n = n*10 + int64(ch-'0')
		}
	}
	return n
}
