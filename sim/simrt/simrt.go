// Package simrt is the deterministic runtime of the lindb simulator: a baton
// scheduler on top of testing/synctest, a choice tape, task incarnations that
// can be killed (process death), and the small shims the source rewriter maps
// sync / channel / goroutine constructs onto.
//
// Exactly one task executes program code at any time (the baton holder). All
// decisions (who runs next, where to preempt, faults) are tape draws, so a run
// is a pure function of (plan, tape, code).
package simrt

import (
	"fmt"
	"hash/fnv"
	"runtime"
	"runtime/debug"
	"sort"
	"strings"
	"sync"
	"testing/synctest"
	"time"
)

// task states
const (
	stRunnable = iota // parked, wants the baton
	stRunning
	stWaitLock // parked until waitOn is released
	stWaitCond // parked until cond signalled
	stWaitPred // parked until predicate true (evaluated by the scheduler)
	stBlocked  // inside a really blocking operation (channel, WaitGroup, sleep)
	stDone
	stDead // killed with its incarnation
)

var stName = []string{"runnable", "running", "waitlock", "waitcond", "waitpred", "blocked", "done", "dead"}

type task struct {
	quiet int // >0: yields of this task are no scheduling points (QuietBegin/QuietEnd)
	id      int
	name    string
	inc     int
	wake    chan struct{}
	state   int
	waitOn  any
	pred    func() bool
	lastRun int
	panicV  string
	spun    bool // force-preempted because it ran SpinLimit yield points without blocking
	spinCount int
	last3     [3]string // last yield labels (diagnostics)
	held      map[sync.Locker]int // exclusive locks held (released when the task's incarnation is killed)
	rheld     map[rlocker]int     // read locks held
}

func (t *task) noteLock(l sync.Locker) {
	if t.held == nil {
		t.held = map[sync.Locker]int{}
	}
	t.held[l]++
}

func (t *task) noteRLock(l rlocker) {
	if t.rheld == nil {
		t.rheld = map[rlocker]int{}
	}
	t.rheld[l]++
}

// noteUnlock forgets one hold of l: the caller's, or (lock handed to another task) any task's.
func (s *Sim) noteUnlock(l sync.Locker) {
	if t := s.cur; t != nil && t.held[l] > 0 {
		if t.held[l]--; t.held[l] == 0 {
			delete(t.held, l)
		}
		return
	}
	for _, t := range s.tasks {
		if t.held[l] > 0 {
			if t.held[l]--; t.held[l] == 0 {
				delete(t.held, l)
			}
			return
		}
	}
}

func (s *Sim) noteRUnlock(l rlocker) {
	if t := s.cur; t != nil && t.rheld[l] > 0 {
		if t.rheld[l]--; t.rheld[l] == 0 {
			delete(t.rheld, l)
		}
		return
	}
	for _, t := range s.tasks {
		if t.rheld[l] > 0 {
			if t.rheld[l]--; t.rheld[l] == 0 {
				delete(t.rheld, l)
			}
			return
		}
	}
}

// releaseLocks drops every lock a dead task holds: a dead process holds no locks. It only matters for
// process-wide objects (registries, managers) that the next incarnation uses again.
func (s *Sim) releaseLocks(t *task) {
	for l, n := range t.held {
		for ; n > 0; n-- {
			l.Unlock()
		}
		wakeWaiters(l)
	}
	t.held = nil
	for l, n := range t.rheld {
		for ; n > 0; n-- {
			l.RUnlock()
		}
		wakeWaiters(l)
	}
	t.rheld = nil
}

// Policy of the scheduler.
const (
	PolicyTape = iota // preempt where the tape says
	PolicyFair        // round robin, preempt every fairQuantum yields; draws nothing
)

const fairQuantum = 50

// Sim is one simulated run.
type Sim struct {
	mu       sync.Mutex
	Tape     *Tape
	tasks    []*task
	cur      *task
	over     bool
	parkedCh chan struct{}

	Steps      int
	MaxSteps   int
	Yields     int
	Preempts   int
	Switches   int
	policy     int
	fairCount  int
	IdleLimit  time.Duration
	start      time.Time
	digest     uint64
	schedHash  uint64
	trace      []string
	TraceLimit int
	MapOrder   bool // tape-chosen iteration order of maps in rewritten code (plan cfg "maporder")

	Faults map[string]int
	Probes map[string]int

	// OnStep runs on the scheduler goroutine at every quiescent point.
	OnStep func()
	// OnYield runs in the baton holder at every yield point before the
	// preemption decision (crash points, monitors).  It may Kill the caller.
	OnYield func(label string)

	onceTab map[*sync.Once]*onceState
	nextInc int
	curInc  int

	PanicTasks []string
	// OnPanic is called (in the panicking task, after its stack unwound) for an unrecovered panic of a task;
	// true = handled by the harness (e.g. as the death of the incarnation), false = reported as a task panic
	OnPanic func(task string, inc int, msg string) bool
	QuietInc   map[int]bool // incarnations that are shutting down: their task panics are not reported
	Stop       bool // set by harness: stop scheduling, Run returns "stopped"

	// SpinLimit: a task that passes this many yield points without parking is
	// preempted (deterministically, no tape draw); when only such spinners are
	// runnable the scheduler lets a millisecond of simulated time pass, as a busy
	// loop burns wall-clock time in a real process.
	SpinLimit  int
	sinceSched  int
	Spins       int
	spinBackoff time.Duration
	lastT       *task
}

type onceState struct {
	done, running bool
}

// S is the simulation the rewritten code talks to (nil = pass-through).
var S *Sim

// New creates a simulation bound to tape. Must be called inside a synctest bubble.
func New(tape *Tape) *Sim {
	FailOpen = nil
	ResetPools()
	defer func() {
		if TraceYields && S != nil {
			S.TraceLimit = 1000000
		}
	}()
	s := &Sim{
		Tape:       tape,
		parkedCh:   make(chan struct{}, 1),
		MaxSteps:   400000,
		IdleLimit:  24 * time.Hour,
		start:      time.Now(),
		Faults:     map[string]int{},
		Probes:     map[string]int{},
		onceTab:    map[*sync.Once]*onceState{},
		QuietInc:   map[int]bool{},
		TraceLimit: 4000,
		SpinLimit:  400,
		digest:     14695981039346656037,
		schedHash:  14695981039346656037,
	}
	S = s
	return s
}

// Now returns the simulated time elapsed since the start of the run.
func (s *Sim) Elapsed() time.Duration { return time.Since(s.start) }

func mix(h uint64, str string) uint64 {
	for i := 0; i < len(str); i++ {
		h ^= uint64(str[i])
		h *= 1099511628211
	}
	h ^= 0xff
	h *= 1099511628211
	return h
}

// Event records a line in the trace and folds it into the run digest.
// Only call while holding the baton (or from the scheduler goroutine).
func (s *Sim) Event(format string, a ...any) {
	line := format
	if len(a) > 0 {
		line = fmt.Sprintf(format, a...)
	}
	s.digest = mix(s.digest, line)
	if len(s.trace) >= s.TraceLimit {
		// keep the tail: the end of a run is what explains a violation
		n := copy(s.trace, s.trace[len(s.trace)-s.TraceLimit/2:])
		s.trace = s.trace[:n]
	}
	s.trace = append(s.trace, line)
}

// TraceYields records every yield point in the trace (debugging aid; not part of the digest).
var TraceYields bool

func (s *Sim) traceOnly(line string) {
	if len(s.trace) >= s.TraceLimit {
		n := copy(s.trace, s.trace[len(s.trace)-s.TraceLimit/2:])
		s.trace = s.trace[:n]
	}
	s.trace = append(s.trace, line)
}

// Eventf is Event for the global simulation, safe when none is active.
func Eventf(format string, a ...any) {
	if s := S; s != nil && !s.over {
		s.Event(format, a...)
	}
}

func (s *Sim) Digest() string      { return fmt.Sprintf("%016x", s.digest) }
func (s *Sim) SchedDigest() string { return fmt.Sprintf("%016x", s.schedHash) }
func (s *Sim) Trace() []string     { return s.trace }

func (s *Sim) Fault(kind string) { s.Faults[kind]++ }
func (s *Sim) Probe(name string) { s.Probes[name]++ }

// ProbeHit lets rewritten/hook code count a rare branch.
func ProbeHit(name string) {
	if s := S; s != nil && !s.over {
		s.Probes[name]++
	}
}

func (s *Sim) SetPolicy(p int) { s.policy = p; s.fairCount = 0 }

// NewIncarnation allocates an incarnation id; tasks spawned with SpawnIn(id,..)
// and everything they start with `go` belong to it and die with Kill(id).
func (s *Sim) NewIncarnation() int {
	s.nextInc++
	return s.nextInc
}

// Spawn registers a task in the incarnation of the caller (0 for the root).
func (s *Sim) Spawn(name string, f func()) { s.SpawnIn(s.incOfCaller(), name, f) }

func (s *Sim) incOfCaller() int {
	if s.cur != nil {
		return s.cur.inc
	}
	return 0
}

func (s *Sim) SpawnIn(inc int, name string, f func()) {
	s.mu.Lock()
	t := &task{id: len(s.tasks), name: name, inc: inc, wake: make(chan struct{})}
	s.tasks = append(s.tasks, t)
	s.mu.Unlock()
	go func() {
		<-t.wake
		// a read or write of an unmapped page becomes a panic of this task, not a crash of the simulator
		debug.SetPanicOnFault(true)
		defer func() {
			if e := recover(); e != nil && !s.QuietInc[t.inc] {
				t.panicV = fmt.Sprint(e)
				// an unrecovered panic of a goroutine ends a real process: a harness may take it as a process death
				if s.OnPanic == nil || !s.OnPanic(t.name, t.inc, t.panicV) {
					s.PanicTasks = append(s.PanicTasks, fmt.Sprintf("task %d(%s): %v\n%s", t.id, t.name, e, trimStack(string(debug.Stack()))))
				}
			}
			s.mu.Lock()
			t.state = stDone
			s.mu.Unlock()
		}()
		f()
	}()
}

func trimStack(st string) string {
	lines := strings.Split(st, "\n")
	if len(lines) > 60 {
		lines = lines[:60]
	}
	return strings.Join(lines, "\n")
}

// Kill marks every live task of the incarnation dead: it never runs again, no
// deferred function of it runs (process death).  If the caller belongs to the
// incarnation it parks forever.
func (s *Sim) Kill(inc int) {
	self := false
	var killed []*task
	s.mu.Lock()
	for _, t := range s.tasks {
		if t.inc == inc && t.state != stDone && t.state != stDead {
			if t == s.cur {
				self = true
				continue
			}
			if t.state == stBlocked {
				// it may still be woken by the runtime; AfterBlock checks inc death
			}
			t.state = stDead
			killed = append(killed, t)
		}
	}
	s.mu.Unlock()
	for _, t := range killed {
		s.releaseLocks(t)
	}
	s.Event("kill inc=%d", inc)
	if self {
		s.releaseLocks(s.cur)
		s.park(stDead, nil, nil)
		select {} // never reached with a correct scheduler
	}
}

// KillOthers marks every live task of the incarnation except the caller dead.
func (s *Sim) KillOthers(inc int) {
	s.mu.Lock()
	var killed []*task
	for _, t := range s.tasks {
		if t.inc == inc && t != s.cur && t.state != stDone && t.state != stDead {
			t.state = stDead
			killed = append(killed, t)
		}
	}
	s.mu.Unlock()
	for _, t := range killed {
		s.releaseLocks(t)
	}
	s.Event("kill others inc=%d", inc)
}

// IncDead reports whether the incarnation has been killed (no live tasks and killed flag).
func (s *Sim) isDead(t *task) bool { return t.state == stDead }

func (s *Sim) signalParked() {
	select {
	case s.parkedCh <- struct{}{}:
	default:
	}
}

// park hands the baton back; returns when the scheduler gives it again.
func (s *Sim) park(state int, on any, pred func() bool) {
	t := s.cur
	if state != stRunnable {
		t.spinCount = 0
	}
	s.mu.Lock()
	t.state = state
	t.waitOn = on
	t.pred = pred
	s.mu.Unlock()
	s.signalParked()
	<-t.wake
}

func active() *Sim {
	s := S
	if s == nil || s.cur == nil {
		return nil
	}
	if s.over {
		select {} // the run is over: whatever is still alive parks forever
	}
	return s
}

// QuietBegin / QuietEnd bracket code that runs in the calling task without being a scheduling point:
// yields inside do not count, draw nothing from the tape and call no hook (used for first-use initialisation
// of process-wide state, which must not make the first run of a process differ from the later ones).
func QuietBegin() {
	if s := S; s != nil && s.cur != nil {
		s.cur.quiet++
	}
}

func QuietEnd() {
	if s := S; s != nil && s.cur != nil && s.cur.quiet > 0 {
		s.cur.quiet--
	}
}

// Yield is a possible preemption point.
func Yield(label string) {
	s := S
	if s == nil || s.cur == nil {
		return
	}
	if s.over {
		select {}
	}
	if s.cur.quiet > 0 {
		return
	}
	s.Yields++
	t0 := s.cur
	t0.last3[0], t0.last3[1], t0.last3[2] = t0.last3[1], t0.last3[2], label
	if TraceYields {
		s.traceOnly(fmt.Sprintf("Y:%d:%s", t0.id, label))
	}
	if s.OnYield != nil {
		s.OnYield(label)
	}
	if s.policy == PolicyFair {
		s.fairCount++
		if s.fairCount < fairQuantum {
			return
		}
		s.fairCount = 0
		s.park(stRunnable, yieldMark, nil)
		return
	}
	v := s.Tape.preempt()
	// yields since the task last blocked: a task that never blocks is a busy loop
	s.cur.spinCount++
	if s.cur.spinCount > s.SpinLimit {
		s.cur.spinCount = 0
		s.Spins++
		s.cur.spun = true
		s.park(stRunnable, spinMark, nil)
		return
	}
	if v == 0 {
		return
	}
	s.Preempts++
	s.cur.waitOn = nil
	s.Event("y:%d:%s", s.cur.id, label)
	s.park(stRunnable, preemptMark(v), nil)
}

type preemptMark int

var yieldMark = preemptMark(1)
var spinMark = preemptMark(1)

// YieldNow always hands the baton back (harness use): the scheduler chooses.
func (s *Sim) YieldNow() {
	if s.cur == nil {
		return
	}
	s.park(stRunnable, nil, nil)
}

// Await parks the calling task until pred() is true; pred is evaluated by the
// scheduler at quiescent points, so it may read any state.
func (s *Sim) Await(pred func() bool) {
	if s.cur == nil {
		panic("Await outside a task")
	}
	for !pred() {
		s.park(stWaitPred, nil, pred)
	}
}

// Sleep advances simulated time for the calling task.
func Sleep(d time.Duration) {
	if S == nil || S.cur == nil {
		time.Sleep(d)
		return
	}
	S.cur.spinCount = 0
	tok := BeforeBlock()
	time.Sleep(d)
	AfterBlock(tok)
}

type trylocker interface {
	Lock()
	Unlock()
	TryLock() bool
}
type rlocker interface {
	RLock()
	RUnlock()
	TryRLock() bool
}

func Lock(l sync.Locker) {
	s := S
	if s == nil || s.cur == nil {
		l.Lock()
		return
	}
	tl, ok := l.(trylocker)
	if !ok {
		panic(fmt.Sprintf("simrt: unsupported locker %T", l))
	}
	Yield("lock")
	for !tl.TryLock() {
		s.park(stWaitLock, l, nil)
	}
	s.cur.noteLock(l)
}

func TryLock(l trylocker) bool {
	Yield("trylock")
	ok := l.TryLock()
	if s := S; ok && s != nil && s.cur != nil {
		if lk, isLocker := l.(sync.Locker); isLocker {
			s.cur.noteLock(lk)
		}
	}
	return ok
}

func Unlock(l sync.Locker) {
	if s := S; s != nil && !s.over {
		s.noteUnlock(l)
	}
	l.Unlock()
	wakeWaiters(l)
}

func RLock(l rlocker) {
	s := S
	if s == nil || s.cur == nil {
		l.RLock()
		return
	}
	Yield("rlock")
	for !l.TryRLock() {
		s.park(stWaitLock, l, nil)
	}
	s.cur.noteRLock(l)
}

func RUnlock(l rlocker) {
	if s := S; s != nil && !s.over {
		s.noteRUnlock(l)
	}
	l.RUnlock()
	wakeWaiters(l)
}

func wakeWaiters(l any) {
	s := S
	if s == nil || s.over {
		return
	}
	s.mu.Lock()
	for _, t := range s.tasks {
		if t.state == stWaitLock && t.waitOn == l {
			t.state = stRunnable
			t.waitOn = nil
		}
	}
	s.mu.Unlock()
}

func CondWait(c *sync.Cond) {
	s := S
	if s == nil || s.cur == nil {
		c.Wait()
		return
	}
	if s.over {
		select {}
	}
	Unlock(c.L)
	s.park(stWaitCond, c, nil)
	Lock(c.L)
}

func CondBroadcast(c *sync.Cond) {
	s := S
	if s == nil || s.cur == nil {
		c.Broadcast()
		return
	}
	s.mu.Lock()
	for _, t := range s.tasks {
		if t.state == stWaitCond && t.waitOn == c {
			t.state = stRunnable
			t.waitOn = nil
		}
	}
	s.mu.Unlock()
}

func CondSignal(c *sync.Cond) {
	s := S
	if s == nil || s.cur == nil {
		c.Signal()
		return
	}
	s.mu.Lock()
	for _, t := range s.tasks {
		if t.state == stWaitCond && t.waitOn == c {
			t.state = stRunnable
			t.waitOn = nil
			break
		}
	}
	s.mu.Unlock()
}

// OnceDo is sync.Once.Do with a simulated wait for a concurrently running f.
func OnceDo(o *sync.Once, f func()) {
	s := S
	if s == nil || s.cur == nil {
		o.Do(f)
		return
	}
	if s.over {
		select {}
	}
	st := s.onceTab[o]
	if st == nil {
		st = &onceState{}
		s.onceTab[o] = st
	}
	for st.running {
		s.park(stWaitLock, o, nil)
	}
	if st.done {
		// may have been done before the simulation started as well
		return
	}
	st.running = true
	defer func() {
		st.running = false
		st.done = true
		wakeWaiters(o)
	}()
	o.Do(f)
}

func WGWait(wg *sync.WaitGroup) {
	tok := BeforeBlock()
	wg.Wait()
	AfterBlock(tok)
}

// Go starts f as a task of the caller's incarnation.
func Go(f func()) {
	s := S
	if s == nil || s.cur == nil {
		go f()
		return
	}
	if s.over {
		select {}
	}
	s.Spawn("go", f)
}

// Procs is what rewritten code sees as runtime.GOMAXPROCS(-1) (pool sizes); a per-run knob.
var Procs = 2

// GOMAXPROCS stands in for runtime.GOMAXPROCS in the packages under test.
func GOMAXPROCS(n int) int {
	if n > 0 {
		return runtime.GOMAXPROCS(n)
	}
	if S == nil || S.cur == nil {
		return runtime.GOMAXPROCS(n)
	}
	return Procs
}

// Tok identifies the task that entered a really-blocking operation.
type Tok struct{ t *task }

// BeforeBlock is called by the baton holder right before an operation that may
// block in the Go runtime (channel operation, select, WaitGroup.Wait, sleep).
func BeforeBlock() Tok {
	s := S
	if s == nil || s.cur == nil {
		return Tok{}
	}
	if s.over {
		select {}
	}
	t := s.cur
	s.mu.Lock()
	t.state = stBlocked
	s.mu.Unlock()
	return Tok{t}
}

// AfterBlock runs right after the operation completed.  It may execute while
// another task holds the baton (the runtime woke us); it only records
// "runnable" and parks until the scheduler hands the baton over.
func AfterBlock(tok Tok) {
	t := tok.t
	s := S
	if t == nil || s == nil {
		return
	}
	s.mu.Lock()
	if s.over || t.state == stDead {
		s.mu.Unlock()
		select {}
	}
	t.state = stRunnable
	t.waitOn = blockMark
	s.mu.Unlock()
	s.signalParked()
	<-t.wake
}

var blockMark = preemptMark(0)

func Recv[T any](ch <-chan T) T {
	tok := BeforeBlock()
	v := <-ch
	AfterBlock(tok)
	return v
}

func Recv2[T any](ch <-chan T) (T, bool) {
	tok := BeforeBlock()
	v, ok := <-ch
	AfterBlock(tok)
	return v, ok
}

func Send[T any](ch chan<- T, v T) {
	tok := BeforeBlock()
	ch <- v
	AfterBlock(tok)
}

// Result of Run.
const (
	ResDone    = "done"    // all tasks finished
	ResStopped = "stopped" // harness set Stop
	ResStuck   = "stuck"   // live tasks, none runnable, none in a timed wait: deadlock
	ResIdle    = "idle"    // nothing happened for IdleLimit of simulated time
	ResSteps   = "steps"   // step budget exhausted
)

// Run schedules tasks until the run ends.  Must be called from the bubble's
// root goroutine.
func (s *Sim) Run() string {
	defer func() { s.over = true }()
	var last *task
	for s.Steps < s.MaxSteps {
		synctest.Wait()
		// harness callbacks run on the scheduler goroutine: no task holds the
		// baton, so instrumented code they touch passes straight through.
		s.cur = nil
		if s.OnStep != nil {
			s.OnStep()
		}
		if s.Stop {
			return ResStopped
		}
		var runnable []*task
		alive, blockedReal := 0, 0
		s.mu.Lock()
		for _, t := range s.tasks {
			if t.state == stWaitPred && t.pred != nil {
				// evaluated below without the lock
			}
		}
		s.mu.Unlock()
		for _, t := range s.tasks {
			if t.state == stWaitPred && t.pred() {
				t.state = stRunnable
				t.waitOn = nil
			}
		}
		s.mu.Lock()
		for _, t := range s.tasks {
			switch t.state {
			case stRunnable:
				runnable = append(runnable, t)
				alive++
			case stDone, stDead:
			case stBlocked:
				blockedReal++
				alive++
			default:
				alive++
			}
		}
		s.mu.Unlock()
		if alive == 0 {
			return ResDone
		}
		if len(runnable) == 0 {
			if blockedReal > 0 {
				tm := time.NewTimer(s.IdleLimit)
				select {
				case <-s.parkedCh:
					tm.Stop()
					continue
				case <-tm.C:
					return ResIdle
				}
			}
			return ResStuck
		}
		sort.Slice(runnable, func(i, j int) bool { return runnable[i].id < runnable[j].id })
		allSpun := true
		for _, r := range runnable {
			if !r.spun {
				allSpun = false
			}
		}
		if allSpun {
			for _, r := range runnable {
				r.spun = false
			}
			if blockedReal > 0 {
				// every goroutine is parked: the fake clock advances.  Consecutive
				// spin rounds back off (1ms, 2ms, ... 1s) so that long waits stay cheap.
				if s.spinBackoff < time.Millisecond {
					s.spinBackoff = time.Millisecond
				}
				time.Sleep(s.spinBackoff)
				if s.spinBackoff < time.Second {
					s.spinBackoff *= 2
				}
				continue
			}
		} else {
			s.spinBackoff = 0
		}
		var t *task
		if s.policy == PolicyFair {
			t = runnable[0]
			for _, r := range runnable[1:] {
				if r.lastRun < t.lastRun {
					t = r
				}
			}
		} else {
			t = s.choose(runnable, last)
		}
		s.Steps++
		if t != last {
			s.Switches++
			s.schedHash = mix(s.schedHash, fmt.Sprint(t.id))
		}
		t.lastRun = s.Steps
		s.mu.Lock()
		t.state = stRunning
		t.waitOn = nil
		s.mu.Unlock()
		s.cur = t
		last = t
		s.lastT = t
		s.sinceSched = 0
		t.wake <- struct{}{}
	}
	return ResSteps
}

func (s *Sim) choose(runnable []*task, last *task) *task {
	if len(runnable) == 1 {
		return runnable[0]
	}
	// was the last task preempted at a yield (mark v>0), or did it come back
	// from a blocking operation (mark 0), or is it gone?
	lastIdx := -1
	for i, r := range runnable {
		if r == last {
			lastIdx = i
		}
	}
	if m, ok := last0(last).waitOn.(preemptMark); ok && lastIdx >= 0 {
		others := make([]*task, 0, len(runnable)-1)
		for _, r := range runnable {
			if r != last {
				others = append(others, r)
			}
		}
		if m > 0 {
			// preempted at a yield: the tape value picks among the others
			return others[(int(m)-1)%len(others)]
		}
		// returned from a (possibly non-blocking) blocking-capable operation:
		// boring choice 0 = keep running it.
		v := s.Tape.pick(len(others), true)
		if v == 0 {
			return last
		}
		return others[(v-1)%len(others)]
	}
	v := s.Tape.pick(len(runnable), false)
	return runnable[v%len(runnable)]
}

// Summary of live tasks for diagnostics.
func (s *Sim) TaskDump() string {
	var b strings.Builder
	for _, t := range s.tasks {
		if t.state == stDone {
			continue
		}
		fmt.Fprintf(&b, "%d(%s,inc%d):%s@%s>%s>%s ", t.id, t.name, t.inc, stName[t.state], t.last3[0], t.last3[1], t.last3[2])
	}
	return b.String()
}

// LiveTasks counts tasks of an incarnation that are not done/dead.
func (s *Sim) LiveTasks(inc int) int {
	n := 0
	for _, t := range s.tasks {
		if t.inc == inc && t.state != stDone && t.state != stDead {
			n++
		}
	}
	return n
}

// CurTask returns id of the baton holder (for traces).
func (s *Sim) CurTask() int {
	if s.cur == nil {
		return -1
	}
	return s.cur.id
}

func (s *Sim) CurInc() int { return s.incOfCaller() }

// CurTaskName returns the name the running task was spawned with ("" outside tasks).
func (s *Sim) CurTaskName() string {
	if s.cur == nil {
		return ""
	}
	return s.cur.name
}

// LastTask describes the task that held the baton last (diagnostics, scheduler context).
func (s *Sim) LastTask() string {
	if s.lastT == nil {
		return "-"
	}
	t := s.lastT
	return fmt.Sprintf("%d(%s,inc%d)@%s>%s>%s", t.id, t.name, t.inc, t.last3[0], t.last3[1], t.last3[2])
}

func hashStr(x string) uint64 {
	h := fnv.New64a()
	h.Write([]byte(x))
	return h.Sum64()
}

var noTask = &task{}

func last0(t *task) *task {
	if t == nil {
		return noTask
	}
	return t
}
