package simrt

import (
	"os"
	"fmt"
	"reflect"
	"sort"
	"sync"
	"syscall"
)

// MapKeys returns the keys of m in a canonical (sorted) order so that map
// iteration order is not a hidden source of nondeterminism.
func MapKeys[M ~map[K]V, K comparable, V any](m M) []K {
	if len(m) == 0 {
		return nil
	}
	keys := make([]K, 0, len(m))
	for k := range m {
		keys = append(keys, k)
	}
	if len(keys) > 1 {
		sortKeys(keys)
		if s := S; s != nil && s.MapOrder && s.cur != nil && !s.over {
			// Go iterates a map from a random position: the tape rotates (and sometimes reverses) the
			// canonical order, so code that depends on "which entry comes first" sees several orders
			n := len(keys)
			if s.Tape.Chance(0.15) {
				r := 1 + s.Tape.Choose(2*n-1)
				rot := r % n
				out := make([]K, 0, n)
				out = append(out, keys[rot:]...)
				out = append(out, keys[:rot]...)
				if r >= n {
					for i, j := 0, n-1; i < j; i, j = i+1, j-1 {
						out[i], out[j] = out[j], out[i]
					}
				}
				s.Probes["map-order-permuted"]++
				return out
			}
		}
	}
	return keys
}

func sortKeys[K any](keys []K) {
	var zero K
	switch any(zero).(type) {
	case string:
		sort.Slice(keys, func(i, j int) bool { return any(keys[i]).(string) < any(keys[j]).(string) })
		return
	case int:
		sort.Slice(keys, func(i, j int) bool { return any(keys[i]).(int) < any(keys[j]).(int) })
		return
	case uint32:
		sort.Slice(keys, func(i, j int) bool { return any(keys[i]).(uint32) < any(keys[j]).(uint32) })
		return
	case int64:
		sort.Slice(keys, func(i, j int) bool { return any(keys[i]).(int64) < any(keys[j]).(int64) })
		return
	case uint64:
		sort.Slice(keys, func(i, j int) bool { return any(keys[i]).(uint64) < any(keys[j]).(uint64) })
		return
	}
	sort.SliceStable(keys, func(i, j int) bool { return lessAny(reflect.ValueOf(&keys[i]).Elem(), reflect.ValueOf(&keys[j]).Elem()) })
}

func lessAny(a, b reflect.Value) bool {
	switch a.Kind() {
	case reflect.Int, reflect.Int8, reflect.Int16, reflect.Int32, reflect.Int64:
		return a.Int() < b.Int()
	case reflect.Uint, reflect.Uint8, reflect.Uint16, reflect.Uint32, reflect.Uint64, reflect.Uintptr:
		return a.Uint() < b.Uint()
	case reflect.String:
		return a.String() < b.String()
	case reflect.Float32, reflect.Float64:
		return a.Float() < b.Float()
	case reflect.Bool:
		return !a.Bool() && b.Bool()
	case reflect.Interface:
		if a.IsNil() || b.IsNil() {
			return a.IsNil() && !b.IsNil()
		}
		ae, be := a.Elem(), b.Elem()
		if ae.Type() != be.Type() {
			return ae.Type().String() < be.Type().String()
		}
		return lessAny(ae, be)
	case reflect.Struct:
		for i := 0; i < a.NumField(); i++ {
			if lessAny(a.Field(i), b.Field(i)) {
				return true
			}
			if lessAny(b.Field(i), a.Field(i)) {
				return false
			}
		}
		return false
	case reflect.Array:
		for i := 0; i < a.Len(); i++ {
			if lessAny(a.Index(i), b.Index(i)) {
				return true
			}
			if lessAny(b.Index(i), a.Index(i)) {
				return false
			}
		}
		return false
	case reflect.Pointer, reflect.Chan, reflect.UnsafePointer:
		// objects that can name themselves get a canonical order without looking at addresses
		if a.CanInterface() && b.CanInterface() {
			if an, ok := a.Interface().(interface{ Name() string }); ok {
				if bn, ok := b.Interface().(interface{ Name() string }); ok && an.Name() != bn.Name() {
					return an.Name() < bn.Name()
				}
			}
		}
		// ... or by the strings they hold (two kv families of different stores may both be called "1", their paths differ)
		if a.Kind() == reflect.Pointer && !a.IsNil() && !b.IsNil() {
			if as, bs := structStrings(a.Elem()), structStrings(b.Elem()); as != bs {
				return as < bs
			}
		}
		// no canonical order exists for addresses; order of first registration
		return ptrSeq(a) < ptrSeq(b)
	}
	return fmt.Sprint(a.Interface()) < fmt.Sprint(b.Interface())
}

// structStrings concatenates the string fields of a struct (exported or not).
func structStrings(e reflect.Value) string {
	if e.Kind() != reflect.Struct {
		return ""
	}
	out := ""
	for i := 0; i < e.NumField(); i++ {
		if f := e.Field(i); f.Kind() == reflect.String {
			out += f.String() + "\x00"
		}
	}
	return out
}

var (
	ptrMu  sync.Mutex
	ptrTab = map[uintptr]uint64{}
	ptrCnt uint64
)

// ptrSeq gives pointers a run-stable order only if they were registered with
// RegisterPtr in a deterministic order; unregistered pointers fall back to
// their address (flagged through the probe counter "ptr-key-order").
func ptrSeq(v reflect.Value) uint64 {
	p := v.Pointer()
	ptrMu.Lock()
	defer ptrMu.Unlock()
	if q, ok := ptrTab[p]; ok {
		return q
	}
	ProbeHit("ptr-key-order")
	return uint64(p) | 1<<63
}

// RegisterPtr assigns the next sequence number to p (call in deterministic order).
func RegisterPtr(p any) {
	v := reflect.ValueOf(p)
	ptrMu.Lock()
	ptrCnt++
	ptrTab[v.Pointer()] = ptrCnt
	ptrMu.Unlock()
}

// SyncMapRange is (*sync.Map).Range in canonical key order.
func SyncMapRange(m *sync.Map, f func(key, value any) bool) {
	type kv struct{ k, v any }
	var all []kv
	m.Range(func(k, v any) bool {
		all = append(all, kv{k, v})
		return true
	})
	sort.SliceStable(all, func(i, j int) bool {
		return lessAny(reflect.ValueOf(&all[i].k).Elem(), reflect.ValueOf(&all[j].k).Elem())
	})
	for _, e := range all {
		if v, ok := m.Load(e.k); ok {
			if !f(e.k, v) {
				return
			}
		}
	}
}

// ---- sync.Pool -------------------------------------------------------------------------
// sync.Pool hands objects back depending on GC and P-local caches. Under simulation a pool is
// a LIFO stack per run: reuse happens (a pooled object that was not reset properly is met
// again inside the run), deterministically, and nothing survives into the next run.

type poolState struct {
	epoch uint64
	items []any
}

var (
	poolMu    sync.Mutex
	pools     = map[*sync.Pool]*poolState{}
	poolEpoch uint64
)

// ResetPools empties every pool (start of a run).
func ResetPools() {
	poolMu.Lock()
	poolEpoch++
	for k := range pools {
		delete(pools, k)
	}
	poolMu.Unlock()
}

func poolOf(p *sync.Pool) *poolState {
	st := pools[p]
	if st == nil || st.epoch != poolEpoch {
		st = &poolState{epoch: poolEpoch}
		pools[p] = st
	}
	return st
}

var noPoolReuse = os.Getenv("VERIF_NOPOOL") != "" // debugging aid

func PoolGet(p *sync.Pool) any {
	if noPoolReuse {
		if p.New != nil {
			return p.New()
		}
		return nil
	}
	poolMu.Lock()
	st := poolOf(p)
	if n := len(st.items); n > 0 {
		x := st.items[n-1]
		st.items = st.items[:n-1]
		poolMu.Unlock()
		ProbeHit("pool-reuse")
		return x
	}
	poolMu.Unlock()
	if p.New != nil {
		return p.New()
	}
	return nil
}

func PoolPut(p *sync.Pool, x any) {
	if x == nil {
		return
	}
	poolMu.Lock()
	st := poolOf(p)
	st.items = append(st.items, x)
	poolMu.Unlock()
}

// ---- OS resources -------------------------------------------------------------------------------
// A killed incarnation never closes its files or unmaps its tables, and the parked goroutines of a run keep
// them reachable for the life of the worker process. Everything the code under test opens or maps is
// registered here and released by core.Execute when the run is over (nothing of the run executes afterwards).

var (
	resMu    sync.Mutex
	resFiles []*os.File
	resMaps  = map[*byte][]byte{}
)

func trackFile(f *os.File, err error) (*os.File, error) {
	if err == nil {
		resMu.Lock()
		resFiles = append(resFiles, f)
		resMu.Unlock()
	}
	return f, err
}

// FailOpen lets a harness fail the opening / creation of a file by the code under test with an I/O error
// (out of descriptors, disk full); nil = never. Reset by New.
var FailOpen func(name string) error

func failOpen(name string) error {
	if FailOpen == nil {
		return nil
	}
	return FailOpen(name)
}

func OpenFile(name string, flag int, perm os.FileMode) (*os.File, error) {
	if err := failOpen(name); err != nil {
		return nil, err
	}
	return trackFile(os.OpenFile(name, flag, perm))
}
func Open(name string) (*os.File, error) {
	if err := failOpen(name); err != nil {
		return nil, err
	}
	return trackFile(os.Open(name))
}
func Create(name string) (*os.File, error) {
	if err := failOpen(name); err != nil {
		return nil, err
	}
	return trackFile(os.Create(name))
}

func Mmap(fd int, offset int64, length, prot, flags int) ([]byte, error) {
	b, err := syscall.Mmap(fd, offset, length, prot, flags)
	if err == nil && len(b) > 0 && DebugMaps && S != nil {
		name, _ := os.Readlink(fmt.Sprintf("/proc/self/fd/%d", fd))
		S.Event("DEBUG mmap %p len %d of %s", &b[0], len(b), name)
	}
	if err == nil && len(b) > 0 {
		resMu.Lock()
		resMaps[&b[0]] = b
		resMu.Unlock()
	}
	return b, err
}

// DebugMaps: every mapping and unmapping of the code under test becomes an event of the trace (debugging aid).
var DebugMaps = os.Getenv("VERIF_DEBUG_MAPS") != ""

func Munmap(b []byte) error {
	if len(b) > 0 && DebugMaps && S != nil {
		S.Event("DEBUG munmap %p len %d", &b[0], len(b))
	}
	if len(b) == 0 {
		return syscall.Munmap(b)
	}
	// The simulated processes of a run share one address space. A real munmap would let the next mmap - of ANOTHER
	// simulated process - reuse the addresses, and a late access of the first process through its stale page object
	// (lindb: a stream handler that is still inside queue.Put while the node's shutdown closes the log) would then
	// read or write the other process's file instead of faulting: a corruption across processes that no deployment
	// can produce (met once in 30000 runs of C08 as `bytes-differ` on a node that nothing had happened to). So the
	// range stays reserved until the run is over and every access to it faults, as it does after a munmap in the
	// process that did it (SetPanicOnFault turns the fault into a panic of that task).
	resMu.Lock()
	_, known := resMaps[&b[0]]
	resMu.Unlock()
	if !known {
		return syscall.Munmap(b)
	}
	return syscall.Mprotect(b, syscall.PROT_NONE)
}

// ReleaseResources closes every file and removes every mapping that the finished run left behind.
func ReleaseResources() (files, maps int) {
	resMu.Lock()
	defer resMu.Unlock()
	for _, f := range resFiles {
		if f.Close() == nil {
			files++
		}
	}
	resFiles = nil
	for k, b := range resMaps {
		if syscall.Munmap(b) == nil {
			maps++
		}
		delete(resMaps, k)
	}
	return
}
