package simrt

import (
	"math/rand"
	"sort"
)

// Tape is the single source of in-run decisions.  In generation mode values
// come from a PRNG and non-zero values are recorded at their position; in
// replay mode the recorded values are returned (0 elsewhere).  0 is always the
// boring choice: keep running, no fault, first candidate.
type Tape struct {
	rng    *rand.Rand
	replay bool
	pos    int
	rec    map[int]int

	// generation parameters (swarm, chosen per run by the harness)
	PreemptP    float64 // probability that a yield point preempts
	MaxPreempts int     // budget of forced preemptions (<0: unlimited)
	preempts    int
	SwitchP     float64 // probability not to continue the same task after a blocking op
	FaultP      float64 // default probability for Chance()
}

func NewGenTape(seed int64) *Tape {
	return &Tape{rng: rand.New(rand.NewSource(seed)), rec: map[int]int{}, PreemptP: 0.05, MaxPreempts: -1, SwitchP: 0.2, FaultP: 0.05}
}

func NewReplayTape(rec map[int]int) *Tape {
	cp := map[int]int{}
	for k, v := range rec {
		cp[k] = v
	}
	return &Tape{replay: true, rec: cp}
}

func (t *Tape) Replay() bool { return t.replay }

// Rng exposes the PRNG for up-front workload generation (generation mode only).
func (t *Tape) Rng() *rand.Rand { return t.rng }

// Record returns the sparse tape (position -> non-zero value).
func (t *Tape) Record() map[int]int { return t.rec }
func (t *Tape) Pos() int            { return t.pos }

func (t *Tape) next(gen func() int) int {
	t.pos++
	if t.replay {
		return t.rec[t.pos]
	}
	v := gen()
	if v != 0 {
		t.rec[t.pos] = v
	}
	return v
}

func (t *Tape) preempt() int {
	return t.next(func() int {
		if t.PreemptP <= 0 || (t.MaxPreempts >= 0 && t.preempts >= t.MaxPreempts) {
			return 0
		}
		if t.rng.Float64() >= t.PreemptP {
			return 0
		}
		t.preempts++
		return 1 + t.rng.Intn(8)
	})
}

// pick chooses among n runnable tasks. sticky: 0 means "continue the last task".
func (t *Tape) pick(n int, sticky bool) int {
	return t.next(func() int {
		if sticky {
			if t.rng.Float64() >= t.SwitchP {
				return 0
			}
			return 1 + t.rng.Intn(n)
		}
		return t.rng.Intn(n)
	})
}

// Choose returns a value in [0,n); uniform in generation mode.
func (t *Tape) Choose(n int) int {
	if n <= 1 {
		t.next(func() int { return 0 })
		return 0
	}
	v := t.next(func() int { return t.rng.Intn(n) })
	if v < 0 {
		v = -v
	}
	return v % n
}

// Chance returns true with probability p in generation mode (recorded as 1).
func (t *Tape) Chance(p float64) bool {
	return t.next(func() int {
		if t.rng.Float64() < p {
			return 1
		}
		return 0
	}) != 0
}

// Sorted positions of the record, for serialisation.
func (t *Tape) Positions() []int {
	ps := make([]int, 0, len(t.rec))
	for p := range t.rec {
		ps = append(ps, p)
	}
	sort.Ints(ps)
	return ps
}
