// The simulator is a test binary because testing/synctest needs a *testing.T.
// It is driven by environment variables (see /verif/check).
//
//go:debug randseednop=0
package run

import (
	"bufio"
	"encoding/json"
	"fmt"
	"math/rand"
	"os"
	"strconv"
	"strings"
	"testing"
	"time"
	_ "time/tzdata" // zones of the C04 plans, whatever the machine has installed

	"github.com/lindb/common/pkg/logger"
	"go.uber.org/zap/zapcore"

	"verifsim/core"
	"verifsim/simrt"
	_ "verifsim/h/ids"
	_ "verifsim/h/kvs"
	_ "verifsim/h/master"
	_ "verifsim/h/mdata"
	_ "verifsim/h/node"
	_ "verifsim/h/pipe"
	_ "verifsim/h/repl"
	_ "verifsim/h/walq"
)

func env(name, def string) string {
	if v := os.Getenv(name); v != "" {
		return v
	}
	return def
}

func TestWorker(t *testing.T) {
	mode := os.Getenv("VERIF_MODE")
	if mode == "" {
		t.Skip("VERIF_MODE not set")
	}
	// package-level math/rand must be seedable: it is an input of the runs
	if !strings.Contains(os.Getenv("GODEBUG"), "randseednop=0") {
		os.Setenv("GODEBUG", strings.TrimPrefix(os.Getenv("GODEBUG")+",randseednop=0", ","))
	}
	time.Local = time.UTC // segment names are parsed in the local zone
	if z := os.Getenv("VERIF_TZ"); z != "" { // experiments: the whole process in another zone
		l, err := time.LoadLocation(z)
		if err != nil {
			t.Fatal(err)
		}
		time.Local = l
	}
	simrt.TraceYields = os.Getenv("VERIF_TRACE_YIELDS") != ""
	logger.RunningAtomicLevel.SetLevel(zapcore.FatalLevel + 1)
	if os.Getenv("VERIF_LOG") != "" { // debugging aid: lindb's own error log on stderr
		lv := zapcore.ErrorLevel
		switch os.Getenv("VERIF_LOG") {
		case "info":
			lv = zapcore.InfoLevel
		case "debug":
			lv = zapcore.DebugLevel
		case "warn":
			lv = zapcore.WarnLevel
		}
		logger.RunningAtomicLevel.SetLevel(lv)
	}
	out := os.Stdout
	if p := os.Getenv("VERIF_OUT"); p != "" {
		f, err := os.Create(p)
		if err != nil {
			t.Fatal(err)
		}
		defer f.Close()
		out = f
	}
	w := bufio.NewWriter(out)
	defer w.Flush()
	switch mode {
	case "gen":
		h := core.Get(env("VERIF_HARNESS", ""))
		if h == nil {
			t.Fatalf("unknown harness %q (have %v)", os.Getenv("VERIF_HARNESS"), core.Names())
		}
		prop := env("VERIF_PROP", "")
		tier := env("VERIF_TIER", "quick")
		start, _ := strconv.ParseInt(env("VERIF_SEED_START", "1"), 10, 64)
		count, _ := strconv.Atoi(env("VERIF_SEED_COUNT", "1"))
		keepPlan := env("VERIF_KEEP_PLANS", "") != ""
		// a property may be served by a second harness: "name:k" = seeds divisible by k run on that harness
		var alt core.Harness
		altEvery := int64(0)
		if a := env("VERIF_ALT_HARNESS", ""); a != "" {
			parts := strings.SplitN(a, ":", 2)
			alt = core.Get(parts[0])
			if alt == nil || len(parts) != 2 {
				t.Fatalf("bad VERIF_ALT_HARNESS %q", a)
			}
			altEvery, _ = strconv.ParseInt(parts[1], 10, 64)
			warmUp(t, alt, prop)
		}
		warmUp(t, h, prop)
		primary := h
		// the worker stops by itself when the supervisor's budget is over or when the goroutines and heaps of
		// finished runs (parked for good, never collected) have grown too large; it says where it stopped and the
		// supervisor gives the rest of the seeds to a fresh process. Read between runs only: no run sees it.
		deadline, _ := strconv.ParseInt(env("VERIF_DEADLINE", "0"), 10, 64)
		maxRSS, _ := strconv.ParseInt(env("VERIF_WORKER_SOFT_RSS_MB", "1800"), 10, 64)
		stop := func(seed int64) bool {
			why := ""
			if deadline > 0 && time.Now().Unix() > deadline {
				why = "deadline"
			} else if rssMB() > maxRSS {
				why = "rss"
			}
			if why == "" {
				return false
			}
			fmt.Fprintf(w, "{\"worker_stop\":%q,\"next_seed\":%d}\n", why, seed)
			w.Flush()
			return true
		}
		for i := 0; i < count; i++ {
			seed := start + int64(i)
			if i > 0 && stop(seed) {
				break
			}
			h := primary
			if alt != nil && altEvery > 0 && seed%altEvery == 0 {
				h = alt
			}
			plan := core.GenPlan(h, prop, seed, tier)
			res := core.Execute(t, h, plan)
			if res.Sig != "" || res.Anomaly != "" || keepPlan || i < 2 {
				res.Plan = plan
			}
			fmt.Fprintln(w, core.MarshalLine(res))
			w.Flush()
			if ex, ok := h.(core.Expander); ok && res.Sig == "" && res.Anomaly == "" {
				for _, p2 := range ex.Expand(plan, res) {
					r2 := core.Execute(t, h, p2)
					if r2.Sig != "" || r2.Anomaly != "" || keepPlan {
						r2.Plan = p2
					}
					fmt.Fprintln(w, core.MarshalLine(r2))
				}
				w.Flush()
			}
			if os.Getenv("VERIF_RES_DEBUG") != "" {
				fds, _ := os.ReadDir("/proc/self/fd")
				maps, _ := os.ReadFile("/proc/self/maps")
				fmt.Fprintf(os.Stderr, "res: plan %d fds=%d maps=%d\n", i, len(fds), strings.Count(string(maps), "\n"))
			}
		}
	case "replay":
		plan, err := core.LoadPlan(env("VERIF_REPLAY", ""))
		if err != nil {
			t.Fatal(err)
		}
		h := core.Get(plan.Harness)
		if h == nil {
			t.Fatalf("unknown harness %q", plan.Harness)
		}
		warmUp(t, h, plan.Prop)
		res := core.Execute(t, h, plan)
		res.Plan = plan
		fmt.Fprintln(w, core.MarshalLine(res))
	case "shrink":
		plan, err := core.LoadPlan(env("VERIF_REPLAY", ""))
		if err != nil {
			t.Fatal(err)
		}
		h := core.Get(plan.Harness)
		budget, _ := strconv.Atoi(env("VERIF_SHRINK_RUNS", "400"))
		warmUp(t, h, plan.Prop)
		small, res, runs := core.Shrink(t, h, plan, env("VERIF_SIG", ""), budget)
		res.Plan = small
		res.Probes = map[string]int{"shrink_runs": runs}
		fmt.Fprintln(w, core.MarshalLine(res))
	default:
		t.Fatalf("unknown VERIF_MODE %q", mode)
	}
}

// warmUp executes one throw-away run. The first run of a process differs from every later one (lazy
// package state: sync.Once, caches, first-use initialisation take other paths and other yield counts), so
// without it a plan found as the k-th run of a batch would not replay as the first run of a fresh process.
func warmUp(t *testing.T, h core.Harness, prop string) {
	if os.Getenv("VERIF_NO_WARMUP") != "" {
		return
	}
	core.Execute(t, h, core.GenPlan(h, prop, 0, "quick"))
}

// rssMB reads the resident set size of this process.
func rssMB() int64 {
	b, err := os.ReadFile("/proc/self/statm")
	if err != nil {
		return 0
	}
	f := strings.Fields(string(b))
	if len(f) < 2 {
		return 0
	}
	pages, _ := strconv.ParseInt(f[1], 10, 64)
	return pages * int64(os.Getpagesize()) >> 20
}

var _ = rand.Int
var _ = json.Marshal
var _ = strings.Contains
