# Per-property configuration of the supervisor (./check) and source of MANIFEST.json (./gen_manifest.py).

COMMON_ASSUME = [
    "the source rewriter maps every goroutine/lock/cond/channel/atomic/map-range construct of the lindb packages under test onto simrt so that each simulated execution is a legal execution of the original program (same happens-before edges, one particular schedule)",
    "preemption granularity: function entries of the packages under test, lock/cond/channel/atomic operations; not every memory access",
    "fault model for storage: process death (completed system calls and stores into shared mappings survive; user-space buffers and memory are lost); no power loss, no torn single write",
    "testing/synctest (go1.26.8) provides the fake clock and quiescence detection",
    "sync.Pool of the lindb packages is a per-run LIFO stack (deterministic reuse inside a run, nothing survives a run); pools inside third-party modules stay real",
    "every worker process executes one throw-away run first, so that lazily initialised package state is the same for a plan found in a batch and for its replay in a fresh process; the first-use creation path of lindb's process-wide metric vectors (internal/linmetric WithTagValues) is no scheduling point; tools/replaycheck.py compares runs as k-th run of a process with their replay in a fresh process",
    "files opened and mappings created by the code under test (os.Open/OpenFile/Create, unix.Mmap of lindb packages) are registered and released when a run is over, so that killed incarnations do not exhaust the worker process",
    "I/O errors are injected only where the property's rule says so (C01: table files and removals; C05: opening a page; C07: table writes of the metadata store inside flush jobs; C08: the follower's append; C09: table writes of metadata / index flushes), as a reported failure of the operation, never as silently lost or torn data",
]

PROPS = {
    "C05": {
        "harness": "walq", "level": "exploration", "per_proc": 250,
        "quick": {"runs": 40000, "budget_s": 240},
        "thorough": {"runs": 4000000, "budget_s": 1500, "shrink_runs": 600},
        "rule": "Each run: 1-3 appender tasks put self-describing messages (8..512 bytes, page size knob 512 so data pages roll over, 8 index entries per index page) in 1-4 phases under a seeded schedule; a phase ends with nothing, close+reopen, or a process death placed by the tape at a function entry of pkg/queue or pkg/queue/page (between the individual mapped-page stores of an append) or while idle; optional queue ack + GC; a concurrent reader; a final append after the last reopen. Oracle: ledger sequence->message. In a quarter of the runs 1-2 data or index pages cannot be opened when an append needs them (out of descriptors / disk full): the append reports the failure and counts as not appended (like one in flight at a crash); every other message must read back as before and later appends must work.",
        "fault_kinds": ["crash-in-append", "crash-idle", "close-reopen", "page-open-fails"],
        "real": ["pkg/queue (queue, page factory, mapped pages on tmpfs, real mmap)", "simrt scheduler decides every interleaving"],
        "stub": [],
        "assumptions": COMMON_ASSUME + ["compile-time knobs in the overlay only: pkg/queue.dataPageSize=512, indexItemsPerPage=8 (the shipped 128 MiB / 262144 never roll over in a test)"],
        "design_ref": "5/C05",
        "level_text": "Seeded exploration of interleavings of concurrent appenders, close/reopen placements and process-death points between the mapped-page stores of an append, on the real pkg/queue; a message ledger decides. Sampling, not proof.",
        "technique": "deterministic simulation: seeded baton scheduler over rewritten sync points + tape-placed process death; ledger oracle",
    },
    "C06": {
        "harness": "walq", "level": "exploration", "per_proc": 250,
        "quick": {"runs": 40000, "budget_s": 240},
        "thorough": {"runs": 4000000, "budget_s": 1500, "shrink_runs": 600},
        "rule": "Two run shapes. Sequential histories (5-40 operations over 1-3 groups: put / create-group / consume / ack inside, below and above the window / set-consumed / sync / gc / stop-group / reopen) checked after every operation against a reference model of (appended, queue ack, per-group consumed/ack) plus the invariants of the statement and readability of every sequence above the queue ack. Concurrent runs: appender, consumer, acker and a Sync/GC task on one group under a seeded schedule, positions monitored at every scheduling step, each Ack judged against the window bounds observed around the call; when the tasks have come to rest the queue is closed and reopened and appended / consumed / acknowledged must be what they were in memory. In half of the concurrent runs a second group is created while the others work (a follower that joins): the queue's acknowledged position must never be beyond that group's once its creation has returned.",
        "fault_kinds": ["close-reopen"],
        "real": ["pkg/queue (fan-out queue, consumer groups, queue, page factory, mapped pages on tmpfs)"],
        "stub": [],
        "assumptions": COMMON_ASSUME + ["compile-time knobs in the overlay only: pkg/queue.dataPageSize=512, indexItemsPerPage=8", "SetConsumedSeq is exercised only inside [acknowledged, appended] (the replicator's rewind); other values are the 'explicit index reset' the statement excludes"],
        "design_ref": "5/C06",
        "level_text": "Seeded exploration of operation histories against a reference model, and of consume-vs-ack interleavings on the real consumer group code; invariants of the statement checked after every operation / scheduling step.",
        "technique": "deterministic simulation: generated histories vs reference model + seeded interleavings with per-step invariant monitor",
    },
}

PROPS["C19"] = {
    "harness": "pipe", "alt_harness": "node:8", "level": "exploration", "per_proc": 150,
    "quick": {"runs": 30000, "budget_s": 240},
    "thorough": {"runs": 3000000, "budget_s": 1500, "shrink_runs": 500},
    "rule": "Each run: a generated stage tree (1-10 stages, fan-out <=4, each stage inline or on the real worker pool with 1-3 workers, outcome ok / error / panic / panic while planning, the plan of a stage a tree of 1-3 real plan nodes (root operator with children, empty root with children as in the shard scan and data load plans, or a chain) whose operator at a chosen position carries the outcome, 0-3 units of simulated work) executed by the real pipeline under a seeded schedule (every completion order of concurrently running stages is a schedule). Oracle: exactly-once completion ledger, error propagation, completion only after every started stage finished (when nothing panics), completion within 60 simulated seconds (simulated time advances only when every task is blocked, so this is starvation-free).",
    "fault_kinds": ["stage-error", "stage-panic", "plan-panic", "io-error@open-table", "close-reopen"],
    "real": ["query/pipeline.go, pipeline_state_matchine.go", "query/stage/base_stage.go Execute/execute (through the verif hook stage)", "internal/concurrent worker pool (dispatcher, workers, panic handler)", "query/tracker stage tracker"],
    "stub": ["plan nodes: scripted outcome and simulated work instead of query operators"],
    "assumptions": COMMON_ASSUME,
    "design_ref": "5/C19",
    "level_text": "Seeded exploration of stage trees x outcome assignments x completion orders on the real pipeline, state machine, base stage and worker pool; completion ledger decides.",
    "technique": "deterministic simulation: seeded baton scheduler over the real worker pool and pipeline; exactly-once / error-propagation ledger; bounded completion in simulated time",
}

PROPS["C01"] = {
    "harness": "kvs", "level": "fault_enumeration", "per_proc": 12, "proc_timeout": 900,
    "quick": {"runs": 1500, "budget_s": 300},
    "thorough": {"runs": 15000, "budget_s": 1700, "shrink_runs": 300},
    "rule": "Each generated history (1-2 families, or - a third of the histories - 3-4 families with parallel flushes: 2-3 flusher tasks on different families of the one store at the same time under a seeded schedule, sharing the file number allocator, manifest and version set; after a crash every family on its own must show its state before or after the flush that was in flight on it; 4-12 operations out of flush [1-6 keys, Add and StreamWriter mixed, value padding 0..3000 bytes so the 4 KiB writer buffer flushes mid-table, optional per-leader sequence, sequence-only flush], Family.Compact, background compaction tick, rollup bookkeeping against a second store, clean close+reopen) is first run without faults (reference-model equality after every operation). Then it is re-executed once per file-system seam operation k=1..N of that fault-free run (quick tier: at most 60 evenly spread points with a per-history random offset; thorough: all N) with the process killed right before operation k; the store is reopened by a fresh incarnation and judged; thorough chains up to two more deaths a few operations later (inside recovery). evaluations = executions (fault-free + crashing). Seam operations: create/write/sync/flush/close of manifest and table writers, write-file and rename of CURRENT, OPTIONS rewrite, mkdir, remove, map/unmap. A fifth of the sequential histories carry no process death but 1-3 injected I/O errors (disk full) at write / sync / flush of a table file or at a file removal inside flushes, compactions and rollups, judged apart: a flush whose Add or stream write failed is abandoned and nothing of it may show; a flush whose Commit reported the failure took effect entirely or not at all (both contents allowed until a reopen decides); a commit that returns success after a failed table write, or an error without an injected fault, is a violation. Manifest writes are not failed (what a written record whose fsync failed means is outside the statement).",
    "fault_kinds": ["crash@write", "crash@sync", "crash@create", "crash@close", "crash@rename", "crash@writefile", "crash@writetoml", "crash@remove", "crash@mkdir", "close-reopen", "io-error@write"],
    "real": ["kv (store, store manager, family, flusher, compact job, rollup bookkeeping)", "kv/version (version set, manifest, edit logs, recovery)", "kv/table (builder, mmap reader, cache)", "pkg/bufioutil"],
    "stub": ["merger: a harness merger registered with kv.RegisterMerger (token-set union) so content is invariant under compaction"],
    "assumptions": COMMON_ASSUME + ["compile-time knob in the overlay only: pkg/bufioutil.defaultWriteBufferSize=4096 (shipped 256 KiB) so tables reach the file in several writes", "the store file lock is a no-op under simulation (a dead incarnation cannot keep it)"],
    "design_ref": "5/C01",
    "level_text": "Per explored history every process-death point between two file-system operations is enumerated (thorough) or evenly sampled (quick); the histories themselves are sampled by seed. Recovery is judged against a set-valued reference model (committed, or committed + the single operation in flight).",
    "technique": "deterministic simulation: fault enumeration of process-death points over seeded histories; reference-model oracle on the recovered store",
}
PROPS["C02"] = {
    "harness": "kvs", "level": "exploration", "per_proc": 100,
    "quick": {"runs": 40000, "budget_s": 300},
    "thorough": {"runs": 1500000, "budget_s": 1700, "shrink_runs": 400},
    "rule": "Each run: one family preloaded with 0-3 files; 1-2 flusher tasks (1-4 commits each), 1-3 reader tasks (take a snapshot, read everything through FindReaders+Get / Load / file iteration, hold it across yields or simulated sleeps up to 5 s, re-read, close) and a maintenance task (Family.Compact, background compaction tick incl. reader-cache cleanup, ForceRollup, clock jumps up to 4000 s past the cache TTL knob 10 ms / 1 s / 1 h), all under a seeded schedule; optionally every flushed file is registered for a rollup that never happens. Oracles: snapshot content stable and commit-atomic, visibility bounds by event order, delete/unmap seam monitor against files of held snapshots / unfinished writers / pending rollup files, reads with SetPanicOnFault. In half of the runs a reader closes its snapshot from two tasks at once (lindb's result sets of one family share a kv snapshot and each closes it): the version must be released once.",
    "fault_kinds": ["clock-jump"],
    "real": ["kv (store, family, flusher, compaction job, obsolete-file deletion)", "kv/version (family version, version refcounts, snapshot)", "kv/table (reader cache, mmap readers)"],
    "stub": ["merger: harness token-set union"],
    "assumptions": COMMON_ASSUME,
    "design_ref": "5/C02",
    "level_text": "Seeded exploration of interleavings of readers, flush commits, compaction, obsolete-file cleanup and cache cleanup on the real kv code, with a file-liveness monitor at the delete/unmap seams and a snapshot-stability model.",
    "technique": "deterministic simulation: seeded baton scheduler + clock jumps; snapshot-stability model and seam monitor",
}

PROPS["C08"] = {
    "harness": "repl", "level": "exploration", "per_proc": 60, "proc_timeout": 900,
    "quick": {"runs": 30000, "budget_s": 300},
    "thorough": {"runs": 300000, "budget_s": 1700, "shrink_runs": 200, "shrink_timeout": 600},
    "rule": "Each run: a leader node and a follower node, each a real WriteAheadLogManager on its own directory; the leader's partition replicates through its real local and remote replicators, the follower answers through the real storage RPC ReplicaHandler; unary calls and the bidirectional stream are simulated (1 ms latency per hop). 4-17 operations: leader appends of unique messages, waits, follower restart (clean / process death / death + log directory lost), follower offline/online with (duplicate) notifications, leader Sync+GC, leader restart (clean / death / death + an older image of its log restored = lost tail; also as a macro 'the leader loses exactly the last 1-2 messages the follower already has'); the follower's log append fails with an I/O error at tape-chosen calls; in addition the tape breaks streams before delivery, after the request was delivered (stale delivery by the dead stream's handler), fails stream creation and unary calls before/after they took effect. After the last fault: settle, then two more appends must reach the follower at the leader's positions within 120 simulated seconds. In half of the runs the follower's stream handlers stall for 1-12 simulated ms at tape-chosen function entries of the replica / queue packages and lock acquisitions (slow disk), so that the handler of a broken stream and its successor overlap inside ReplicaLog. The acknowledgement monitor is also position by position: every position the leader newly treats as acknowledged must have been appended by a handler of the follower at some time (the follower's counter alone can be moved without data by the handshake's Reset).",
    "fault_kinds": ["follower-put-fails", "break-before-delivery", "break-after-request", "stale-delivery", "stream-open-fail", "unary-fail-before", "unary-fail-after", "follower-restart-0", "follower-restart-1", "follower-log-lost", "follower-offline", "duplicate-online-notification", "leader-gc", "leader-restart-0", "leader-restart-1", "leader-tail-lost", "follower-stall", "follower-flap"],
    "real": ["replica (wal manager, wal, partition, local replicator, remote replicator incl. handshake)", "app/storage/rpc ReplicaHandler", "pkg/queue (fan-out queue, consumer groups, pages on tmpfs)"],
    "stub": ["tsdb.Engine / Shard / DataFamily (interfaces; replication of a log never touches tsdb data)", "coordinator/storage StateManager (live-node table + notifications driven by the plan)", "rpc.ClientStreamFactory and the gRPC streams (simnet: ordered, reliable until broken)"],
    "assumptions": COMMON_ASSUME + ["gRPC semantics modelled: a stream is ordered and reliable until it breaks; unary calls either fail before or after taking effect", "positions destroyed by a leader tail loss are exempt from byte comparison until the handshake re-aligned the indexes", "compile-time knobs: queue page size 512 bytes, 8 index entries per page"],
    "design_ref": "5/C08",
    "level_text": "Seeded exploration of fault sequences and schedules on two real nodes' replication stacks over a simulated transport; invariants after every operation and at every scheduling step, bounded catch-up after faults stop.",
    "technique": "deterministic simulation: simulated transport with stream/unary faults, node death and log loss; prefix/bytes agreement, ack <= follower high-water mark monitor, bounded liveness in simulated time",
}

PROPS["C18"] = {
    "harness": "master", "level": "exploration", "per_proc": 150,
    "quick": {"runs": 40000, "budget_s": 300},
    "thorough": {"runs": 3000000, "budget_s": 1500, "shrink_runs": 400},
    "rule": "Each run: 1-7 storage nodes, some registered before the master starts; the real master StateManager with its real discovery state machines watches a simulated state repository (ordered watch stream per prefix, each event delayed 0..300 simulated ms by the tape). 5-40 operations: node up / down / flap, create database (1-12 shards, replica factor 1-3), grow shards, drop database, watch re-synchronisation (current state delivered again = duplicate events), bursts of 2-4 operations issued without waiting. After every operation the run waits (simulated time) until all watch events are drained and checks the persisted assignment and GetStorageState().",
    "fault_kinds": ["delayed-watch-event", "watch-resync-duplicates"],
    "real": ["coordinator/master (state manager, shard assignment, leader elector, storage cluster, state machine factory)", "coordinator/discovery (state machines, discovery)", "models (storage state, shard assignment)"],
    "stub": ["pkg/state Repository: in-memory key/value store with ordered watch streams (etcd is not run)"],
    "assumptions": COMMON_ASSUME + ["etcd guarantees modelled: per-watch ordered, gap-free delivery; duplicates only through re-listing", "math/rand is seeded per run (GODEBUG randseednop=0)"],
    "design_ref": "5/C18",
    "level_text": "Seeded exploration of node churn / database change histories with delayed and duplicated discovery events on the real master; the invariants of the statement are evaluated after every operation.",
    "technique": "deterministic simulation: simulated state repository with delayed/duplicated watch events; invariant checks after every event burst",
}

PROPS["C09"] = {
    "harness": "ids", "level": "exploration", "per_proc": 100, "proc_timeout": 900,
    "quick": {"runs": 40000, "budget_s": 300},
    "thorough": {"runs": 1000000, "budget_s": 1700, "shrink_runs": 300, "shrink_timeout": 600},
    "rule": "Each run: one real MetricMetaDatabase shared by a metadata-worker task (metric ids, field ids) and 1-2 shard index-worker tasks, each with its own real MetricIndexDatabase (metric id, series id and through it tag key / tag value ids) - the callers tsdb/memdb has - over a small name universe (2 namespaces x 4 metrics x 8 tag sets x 3 fields) under a seeded schedule; 1-3 phases of 2-11 calls with PrepareFlush-in-worker + Flush-in-own-task for the meta and index databases (meta flushes serialised as the flush checker does), from the second phase on also an adversarial schedule ('suspend': a caller is held at a chosen yield point of its get-or-create while another caller creates the same metric name and a complete metadata (+ index) flush cycle passes, then continues, then the name is asked again); ending with nothing, flush, flush+close+reopen, or process death (at a file-system seam operation of the kv stores, at entry of the sequence sync / flush functions, or idle). Oracle: ledger name<->ID per kind and scope; after restart get-only lookups (GetMetricID, GetSchema, CollectTagValues, postings) decide what survived, everything that survived must have its old ID, after a clean reopen everything must have survived, and new names must not receive IDs that surviving dictionaries or postings use for another name. Index flushes follow shard.FlushIndex: the stores are switched by the shard's own worker between two calls, one flush of a shard at a time (a request while one runs is dropped); metadata flushes are serialised like the flush checker does. In a quarter of the runs 1-2 table writes of a metadata or index flush fail with an I/O error (disk full): the flush reports it, and a later flush has to persist what the failed one held (names of a flush that reported success must survive the reopen with their IDs; a name created later must not receive an ID the persisted dictionaries or postings use).",
    "fault_kinds": ["crash@write", "crash@yield", "crash-idle", "close-reopen", "caller-suspended", "io-error@write"],
    "real": ["index (kv store, metric meta database, metric index database, schema store, sequence)", "index/v1 flushers/readers/mergers, index/model trie buckets", "kv stores underneath", "hashicorp/golang-lru expirable cache (rewritten copy)"],
    "stub": ["tsdb/memdb workers: replaced by harness tasks calling the same index APIs in the same roles (the real workers run in the node harness)"],
    "assumptions": COMMON_ASSUME + ["series ids are generated by one caller per index database, as one shard index worker does"],
    "design_ref": "5/C09",
    "level_text": "Seeded exploration of interleavings of the get-or-create calls of the real index databases with flushes, reopen and process death inside flushes; bijection ledger across restarts.",
    "technique": "deterministic simulation: seeded baton scheduler + tape-placed process death in metadata/index flushes; name<->ID bijection ledger across incarnations",
}

NODE_REAL = ["tsdb (engine, database, shard, data family, memory database, field writer, index/meta workers, flush paths)", "index (meta database, index database, kv store, forward/inverted index, trie buckets)", "kv stores, version sets, compaction", "tsdb/tblstore/metricsdata (flusher, reader, filter, loader, merger)", "sql parser, query (MetricDataSearch root, leaf and intermediate task processors, pipelines, stages, operators), flow, aggregation", "series/metric proto -> flat-buffer converter and StorageRow"]
NODE_STUB = ["rpc transport: an in-process loopback that hands TaskRequest/TaskResponse protobufs to the real processors (delivery order is a tape decision)", "broker state manager / node discovery: a fixed in-memory topology", "write-ahead log and replication (covered by C05-C08; rows go straight to DataFamily.WriteRows as the local replicator does)"]
PROPS["C10"] = {
    "harness": "node", "level": "exploration", "per_proc": 60, "proc_timeout": 900,
    "quick": {"runs": 25000, "budget_s": 300},
    "thorough": {"runs": 700000, "budget_s": 1700, "shrink_runs": 200, "shrink_timeout": 600},
    "rule": "Each run: a real tsdb engine with 1-2 shards; a universe of 2-11 series (tag id always present and unique, host out of 4 values incl. a multi-byte one and values sharing prefixes, optional zone and app) spread over the shards; 7-15 operations out of write (1-12 points), the flush sequence of the flush checker (metadata -> shard index -> family data), kv compaction of every store, a jump of the metric's series id sequence past the next roaring container boundary (hook; series ids end up in up to three containers), query, and query running concurrently with the flush sequence under a seeded schedule (every second flush is a job of the engine's real flush checker, which also garbage collects write buffers; a query that finishes while the flush still runs is asked again). Every query carries a generated tag condition (depth <= 3 over =, !=, in, not in, like prefix/suffix/contains/exact, not like, =~, !~, and/or, parentheses) and groups by id,host through the real MetricDataSearch -> leaf pipeline. Oracle: the condition evaluated by brute force on the tags of every series written before the query started (missing key = false, also for the negated forms, as the statement's 'not = series having the key minus matches'); the set of returned groups and their group-key values must equal it exactly. A condition naming a tag key that no written series carries is expected to be rejected ('tag key not found').",
    "fault_kinds": ["flush", "compact"],
    "real": NODE_REAL, "stub": NODE_STUB,
    "assumptions": COMMON_ASSUME + ["the group-by keys id,host exist on every series, so the returned group keys identify the selected series"],
    "design_ref": "5/C10",
    "level_text": "Seeded exploration of write / index flush / compaction / query histories on a real engine, with queries racing the flush sequence under a seeded schedule; brute-force predicate evaluation decides.",
    "technique": "deterministic simulation: generated histories + seeded interleaving of queries with metadata/index/data flush tasks; brute-force predicate model",
}
PROPS["C11"] = {
    "harness": "node", "level": "exploration", "per_proc": 60, "proc_timeout": 900,
    "quick": {"runs": 25000, "budget_s": 300},
    "thorough": {"runs": 500000, "budget_s": 1700, "shrink_runs": 200, "shrink_timeout": 600},
    "rule": "Each run: as C10 plus engine close+reopen; in half of the runs a write may carry only the first one or two fields, so that files with a single-field block, files with other field sets and memory meet in queries and compactions; otherwise points carry a random subset of five fields (sum, min, max, last, first), timestamps in the first 10 minutes of one or two hours (one or two data families per shard, sharing the shard's time series index), slot-aligned or not, duplicates and out-of-order slots inside and outside the 64-slot write window. Queries select one field - a third of those on the sum field through sum(f), min(f) or max(f) - over a random or whole-hour time range (or spanning both hours), optional tag condition (depth <= 1), group by none / host / id / id,host, interval none / 20 s / 30 s / 60 s. Oracle: a ledger of every accepted point; the reference keeps points whose 10 s storage slot lies in the truncated range, buckets them from the truncated range start, combines one bucket by the field's aggregate (sum/min/max exactly; last/first must be one of the written values) - compared group by group and slot by slot, including 'no value where nothing was written'. A group without any value of the selected field may be returned (series are selected before the field is read). In half of the runs a statement may select two columns (two fields, or two functions of the sum field - each judged on its own against the model), and a write may carry exactly one later field of the metric (a flushed block whose only field is not the first).",
    "fault_kinds": ["flush", "compact", "close-reopen"],
    "real": NODE_REAL, "stub": NODE_STUB,
    "assumptions": COMMON_ASSUME + ["values are integers so float sums are exact in any order", "histogram fields are covered at file level by C03, not here", "one or two families (hours) per run"],
    "design_ref": "5/C11",
    "level_text": "Seeded exploration of write / flush / compaction / reopen / query histories on a real engine, queries racing the flush sequence; a naive point ledger with bucket-by-timestamp semantics decides.",
    "technique": "deterministic simulation: generated histories + seeded interleaving of queries with flush tasks; naive point-ledger reference model",
}

PROPS["C12"] = {
    "harness": "node", "level": "exploration", "per_proc": 40, "proc_timeout": 900,
    "quick": {"runs": 12000, "budget_s": 300},
    "thorough": {"runs": 300000, "budget_s": 1700, "shrink_runs": 150, "shrink_timeout": 600},
    "rule": "Each run: one real engine holding the same generated points twice - database A with one shard, database K with 2-4 shards over which the series are spread; 4-9 operations out of write (to both), flush sequence (both), query. Every query (generator of C11: field, time range, interval, optional tag condition, group by none/host/id/id,host) is executed under 3-5 physical layouts: A on one leaf; K with all shards on one leaf; K with the shards partitioned over 2..k leaf nodes (leaves whose shards hold no matching data occur); the partitioned layout plus one more leaf node that has never seen the metric (it answers from a database that never received a point); and for group-by queries the partitioned layout and A through an intermediate node (real IntermediateTaskProcessor) between root and leaves. Each response travels in its own task with a tape-chosen transit time (0/0/1/3 ms), so arrival order and the interleaving of arrivals with leaves that are still working are seeded. Oracle: every answer must equal the reference model of C11, all answers must have the same outcome (error or not) and equal groups/slots/values (values of last/first fields only when one group is one series). In half of the runs the rows of a write reach their shard and family through lindb's broker-side batch code (routing hash -> shard, batch iterators -> family) instead of the harness's own assignment; statements may select two columns as in C11; and - half of the runs - the partition is asked once more with an extra leaf whose task fails with a real error: the statement must fail whatever the arrival order (C12/leaf-error-lost).",
    "fault_kinds": ["flush", "failing-leaf"],
    "real": NODE_REAL, "stub": NODE_STUB,
    "assumptions": COMMON_ASSUME + ["series are spread over shards by a seeded assignment (a superset of what the routing hash of series/metric/row_broker.go can produce)", "leaf 'nodes' are several real leaf task processors over the one engine, each given its own shard ids, as flow/node_choose.go would assign them"],
    "design_ref": "5/C12",
    "level_text": "Seeded exploration of shard placements, leaf partitions, intermediate routing and response arrival orders for generated data and queries on a real engine and the real distributed query code; metamorphic equality plus the C11 reference model.",
    "technique": "deterministic simulation: one data set under several physical layouts with tape-chosen response transit times and seeded scheduling; metamorphic equality + reference model",
}

PROPS["C07"] = {
    "harness": "node", "level": "exploration", "per_proc": 40, "proc_timeout": 900,
    "quick": {"runs": 2500, "budget_s": 300},
    "thorough": {"runs": 60000, "budget_s": 1700, "shrink_runs": 150, "shrink_timeout": 600},
    "rule": "Each run: a storage node without its network - real tsdb engine (one database, one shard, one family), the real write-ahead-log manager with the partition of this node as leader, its real local replicator loop and the engine's real flush checker - through up to 6 process incarnations on one directory. 9-20 operations out of: append 1-3 messages of 1-3 rows to the log (partition.WriteLog, as the write handler does), request a flush job (database.Flush: metadata -> index -> family data, running concurrently with replication), request and wait, log housekeeping (Sync + GC), let background work run, read back, clean shutdown in the runtime's order (stop log manager, close engine, close log) and start (in a third of the histories the shutdown does not wait for a running flush job - SIGTERM whenever it comes; a shutdown that hangs for two simulated minutes or ends in an unrecovered panic counts as a process death); an entry that is no decodable block (the replicator must skip it without acknowledging anything applied but not yet flushed); a quarter of the histories end with late data of an expired family: memory database time-to-live longer than a day, 26 simulated hours pass (the log manager's hourly housekeeping may destroy the expired partition's log), then the process dies. While an operation runs the process may die at a tape-chosen point: before a file-system operation of any kv store (data family, shard index, metadata), at a function entry of the queue / page / replica / tsdb / memdb / kv / version / index packages (probability x20 at commit / acknowledge / sequence functions), i.e. also between data commit, sequence record and log acknowledgement. After every restart the real recovery runs (WriteAheadLogManager.Recovery, replicator rewinds to ack+1), the harness waits for catch-up and reads every cell back through the real query pipeline. Oracle: every message writes 1 into 1-3 (series, slot) cells of a sum field that no other message touches: a cell of a message whose append returned must read exactly 1 (nothing = lost, 2 = applied twice), a cell of an append in flight at the death 0 or 1, no other cell may exist, the series must carry its own tags; right after recovery the log's acknowledged position must not exceed the sequence stored with the flushed data. In half of the runs the node also holds the log of another leader of the same family (as after a leader change): a third of the entries arrive there through Partition.ReplicaLog and are applied by that log's own replicator, concurrently with the node's own log; acknowledged position vs. stored sequence is checked per leader. In a quarter of the runs 1-2 table writes of the metadata store fail with an I/O error (disk full) inside a flush job: the job reports it and stops, and nothing that depends on what that metadata flush was about to persist may become durable before a later one succeeds.",
    "fault_kinds": ["crash@fs-write", "crash@fs-sync", "crash@queue", "crash@page", "crash@tsdb", "crash@index", "crash@version", "crash@kv", "crash@memdb", "crash@replica", "clean-restart", "flush-request", "log-gc", "family-expired", "undecodable-log-entry", "shutdown-during-flush", "io-error@meta-write"],
    "real": NODE_REAL + ["replica (write-ahead-log manager, log, partition, local replicator)", "pkg/queue fan-out queue on mapped pages", "tsdb data flush checker and its workers"],
    "stub": ["rpc transport for the read-back query (loopback)", "no remote replicas, no broker"],
    "assumptions": COMMON_ASSUME + ["writes are not failed artificially (Replica() acknowledges a message whose write returned an error by design)", "a clean shutdown waits for the running flush job first (dataFamily.Close can wait forever for a flush that needs the lock Close holds - observed, outside this property)"],
    "design_ref": "5/C07",
    "level_text": "Seeded exploration of append / flush / housekeeping / shutdown histories on a real engine + write-ahead log with process death at file-system operations and function entries of every involved package, flush jobs racing the replicator; exactly-once cell ledger read back through the query pipeline after real recovery.",
    "technique": "deterministic simulation: generated histories, tape-placed process death (fs seam hooks + function-entry yields), seeded interleaving of replicator, flush workers and metadata/index workers; exactly-once ledger over incarnations",
}

PROPS["C03"] = {
    "harness": "mdata", "level": "exploration", "per_proc": 80, "proc_timeout": 900,
    "quick": {"runs": 20000, "budget_s": 300},
    "thorough": {"runs": 400000, "budget_s": 1700, "shrink_runs": 300, "shrink_timeout": 600},
    "rule": "Each run: one data family with the real metric-data merger; 4-12 operations out of flush (a generated file: 1-3 metrics, a subset of six fields of all types sum/min/max/last/first/histogram, slot range narrow / wide / random inside 0..39, 1-6 series out of ids around the 65536 boundaries, per (series, field) optionally no data, per slot optionally no value, integer values) written through the real metricsdata flusher, Family.Compact and the background compaction tick (compaction threshold 0/2/3, max output file size 0/200/1500 bytes so outputs split), optionally a reader task holding a snapshot across the compaction under a seeded schedule. After every operation every block of the current version is decoded with the real reader and compared cell by cell (metric, series, field, slot) with the reference model. Two fifths of the runs use families of 400 or 720 slots (store intervals with more than 360 slots per family), the others 40.",
    "fault_kinds": ["compaction-changed-files"],
    "real": ["tsdb/tblstore/metricsdata (flusher, reader, data scanner, merger, series merger, field reader)", "aggregation/down_sampling_agg", "kv compaction job and compact flusher", "pkg/encoding TSD/XOR/fixed-offset codecs"],
    "stub": [],
    "assumptions": COMMON_ASSUME + ["values are integers so float sums are exact in any order"],
    "design_ref": "5/C03",
    "level_text": "Seeded exploration of flush/compaction histories on the real metric data files with a naive cell-level reference model; readers holding snapshots run concurrently with the compaction goroutine.",
    "technique": "deterministic simulation: generated flush/compact histories + seeded interleaving of snapshot readers with the compaction task; cell-level reference model",
}
PROPS["C04"] = {
    "harness": "mdata", "level": "exploration", "per_proc": 80, "proc_timeout": 900,
    "quick": {"runs": 20000, "budget_s": 300},
    "thorough": {"runs": 400000, "budget_s": 1700, "shrink_runs": 300, "shrink_timeout": 600},
    "rule": "Each run: a source store of 10 s interval (day calculator, segment 2000-01-01 / 03 / 31, families = hours 0, 5, 23) and target stores of 5 min (month calculator) and/or 1 h (year calculator) under the directory names the rollup code parses, all in one store manager. 6-15 operations: flush a generated file (as C03, slots 0..359) into a source family, ForceRollup, two overlapping rollup triggers, background tick (compaction + rollup), compaction of a source family, clean close+reopen; optionally process death at a file-system seam operation during rollup/tick operations followed by restart and rollup again. Whenever no rollup entry is pending, every target family is decoded and compared with the aggregate of exactly those source slots whose timestamps fall into each target slot (computed from timestamps, independently of the calculators); sum fields expose double application as 2x. One history in twelve contains a rollup whose process dies exactly between the commit in a target family and the commit in the source family, optionally more data for the same source family, and the rollup again (without the settling rollup that otherwise follows a restart).",
    "fault_kinds": ["crash@write", "crash@sync", "overlapping-rollup-trigger", "parallel-rollup-trigger", "close-reopen", "crash-between-target-and-source-commit"],
    "real": ["kv/family_rollup.go, kv/version rollup bookkeeping, kv flusher (rollup registration)", "metricsdata merger in rollup mode + aggregation down sampling", "pkg/timeutil calculators", "kv store manager"],
    "stub": [],
    "assumptions": COMMON_ASSUME + ["process time zone is UTC (the supervisor sets TZ=UTC)"],
    "design_ref": "5/C04",
    "level_text": "Seeded exploration of flush / rollup / compaction / reopen / crash histories over real source and target stores; timestamp-based reference aggregate with an exactly-once ledger through sum fields.",
    "technique": "deterministic simulation: generated histories with tape-placed process death during rollup, seeded interleaving of rollup and compaction goroutines; timestamp-based reference model",
}

NOT_APPLICABLE = {
    "C13": "pure arithmetic on (timestamp, interval): no schedule, clock, fault or crash point in the quantifier for a simulator to own; its code runs inside the C04/C07/C11 harnesses",
    "C14": "encode/decode are pure functions of the value/slot sequence, and a reuse history of a pooled encoder/decoder is a sequential operation sequence on one goroutine: there is no schedule, clock, fault or crash point for a simulator to decide (that is input/sequence generation, another technique). The simulator's sync.Pool is a per-run LIFO that always hands back the object released last, so the codecs do run in their reused state inside the C03/C04/C07/C11 harnesses (flush, merge, rollup, query decode), but that is not a decision of this property",
    "C15": "pure function of the key/value sequence; the crash/concurrency aspects of tables are C01/C02",
    "C16": "pure per-batch conversion and routing; no concurrency, time or I/O in the statement",
    "C17": "pure parse/marshal/unmarshal round trip",
    "C20": "pure build/lookup/merge of an immutable dictionary",
}
