# Per-property configuration of the supervisor (./check) and source of MANIFEST.json (./gen_manifest.py).

COMMON_ASSUME = [
    "the source rewriter maps every goroutine/lock/cond/channel/atomic/map-range construct of the lindb packages under test onto simrt so that each simulated execution is a legal execution of the original program (same happens-before edges, one particular schedule)",
    "preemption granularity: function entries of the packages under test, lock/cond/channel/atomic operations; not every memory access",
    "fault model for storage: process death (completed system calls and stores into shared mappings survive; user-space buffers and memory are lost); no power loss, no torn single write",
    "testing/synctest (go1.26.8) provides the fake clock and quiescence detection",
]

PROPS = {
    "C05": {
        "harness": "walq", "level": "exploration", "per_proc": 250,
        "quick": {"runs": 6000, "budget_s": 240},
        "thorough": {"runs": 400000, "budget_s": 1500, "shrink_runs": 600},
        "rule": "Each run: 1-3 appender tasks put self-describing messages (8..512 bytes, page size knob 512 so data pages roll over, 8 index entries per index page) in 1-4 phases under a seeded schedule; a phase ends with nothing, close+reopen, or a process death placed by the tape at a function entry of pkg/queue or pkg/queue/page (between the individual mapped-page stores of an append) or while idle; optional queue ack + GC; a concurrent reader; a final append after the last reopen. Oracle: ledger sequence->message.",
        "fault_kinds": ["crash-in-append", "crash-idle", "close-reopen"],
        "real": ["pkg/queue (queue, page factory, mapped pages on tmpfs, real mmap)", "simrt scheduler decides every interleaving"],
        "stub": [],
        "assumptions": COMMON_ASSUME + ["compile-time knobs in the overlay only: pkg/queue.dataPageSize=512, indexItemsPerPage=8 (the shipped 128 MiB / 262144 never roll over in a test)"],
        "design_ref": "5/C05",
        "level_text": "Seeded exploration of interleavings of concurrent appenders, close/reopen placements and process-death points between the mapped-page stores of an append, on the real pkg/queue; a message ledger decides. Sampling, not proof.",
        "technique": "deterministic simulation: seeded baton scheduler over rewritten sync points + tape-placed process death; ledger oracle",
    },
    "C06": {
        "harness": "walq", "level": "exploration", "per_proc": 250,
        "quick": {"runs": 6000, "budget_s": 240},
        "thorough": {"runs": 400000, "budget_s": 1500, "shrink_runs": 600},
        "rule": "Two run shapes. Sequential histories (5-40 operations over 1-3 groups: put / create-group / consume / ack inside, below and above the window / set-consumed / sync / gc / stop-group / reopen) checked after every operation against a reference model of (appended, queue ack, per-group consumed/ack) plus the invariants of the statement and readability of every sequence above the queue ack. Concurrent runs: appender, consumer, acker and a Sync/GC task on one group under a seeded schedule, positions monitored at every scheduling step, each Ack judged against the window bounds observed around the call.",
        "fault_kinds": ["close-reopen"],
        "real": ["pkg/queue (fan-out queue, consumer groups, queue, page factory, mapped pages on tmpfs)"],
        "stub": [],
        "assumptions": COMMON_ASSUME + ["compile-time knobs in the overlay only: pkg/queue.dataPageSize=512, indexItemsPerPage=8", "SetConsumedSeq is exercised only inside [acknowledged, appended] (the replicator's rewind); other values are the 'explicit index reset' the statement excludes"],
        "design_ref": "5/C06",
        "level_text": "Seeded exploration of operation histories against a reference model, and of consume-vs-ack interleavings on the real consumer group code; invariants of the statement checked after every operation / scheduling step.",
        "technique": "deterministic simulation: generated histories vs reference model + seeded interleavings with per-step invariant monitor",
    },
}

PROPS["C19"] = {
    "harness": "pipe", "level": "exploration", "per_proc": 150,
    "quick": {"runs": 4000, "budget_s": 240},
    "thorough": {"runs": 250000, "budget_s": 1500, "shrink_runs": 500},
    "rule": "Each run: a generated stage tree (1-10 stages, fan-out <=4, each stage inline or on the real worker pool with 1-3 workers, outcome ok / error / panic, 0-3 units of simulated work) executed by the real pipeline under a seeded schedule (every completion order of concurrently running stages is a schedule). Oracle: exactly-once completion ledger, error propagation, completion only after every started stage finished (when nothing panics), completion within 60 simulated seconds (simulated time advances only when every task is blocked, so this is starvation-free).",
    "fault_kinds": [],
    "real": ["query/pipeline.go, pipeline_state_matchine.go", "query/stage/base_stage.go Execute/execute (through the verif hook stage)", "internal/concurrent worker pool (dispatcher, workers, panic handler)", "query/tracker stage tracker"],
    "stub": ["plan nodes: scripted outcome and simulated work instead of query operators"],
    "assumptions": COMMON_ASSUME,
    "design_ref": "5/C19",
    "level_text": "Seeded exploration of stage trees x outcome assignments x completion orders on the real pipeline, state machine, base stage and worker pool; completion ledger decides.",
    "technique": "deterministic simulation: seeded baton scheduler over the real worker pool and pipeline; exactly-once / error-propagation ledger; bounded completion in simulated time",
}

NOT_APPLICABLE = {
    "C13": "pure arithmetic on (timestamp, interval): no schedule, clock, fault or crash point in the quantifier for a simulator to own; its code runs inside the C04/C07/C11 harnesses",
    "C14": "encode/decode are pure functions; pooled-object reuse is owned by the simulator only as a nondeterminism source of other harnesses, not as a fault of this property",
    "C15": "pure function of the key/value sequence; the crash/concurrency aspects of tables are C01/C02",
    "C16": "pure per-batch conversion and routing; no concurrency, time or I/O in the statement",
    "C17": "pure parse/marshal/unmarshal round trip",
    "C20": "pure build/lookup/merge of an immutable dictionary",
}
