#!/usr/bin/env python3
"""Writes MANIFEST.json from props.py (single source of truth for the checks)."""
import json, os, subprocess
from props import PROPS, NOT_APPLICABLE

V = os.path.dirname(os.path.abspath(__file__))
hooks = []
try:
    out = subprocess.run(["git", "-C", "/repo", "log", "--format=%H %s"], stdout=subprocess.PIPE, text=True).stdout
    for line in out.splitlines():
        h, _, subj = line.partition(" ")
        if subj.startswith("verif hook:"):
            hooks.append(h)
except Exception:
    pass

checks = []
for pid in sorted(PROPS):
    c = PROPS[pid]
    checks.append({
        "property_id": pid,
        "quick_cmd": "./check %s quick" % pid,
        "thorough_cmd": "./check %s thorough" % pid,
        "evidence_file": "evidence/%s.json" % pid,
        "replay_cmd_template": "./check replay {path}",
        "engine": "sim/" + c["harness"],
        "level_claimed": {"category": c["level"], "text": c["level_text"], "design_ref": "DESIGN.md section " + c["design_ref"]},
        "level_note": "; ".join(c["assumptions"]),
        "technique": c["technique"],
    })

engines = {}
for pid, c in PROPS.items():
    engines.setdefault(c["harness"], []).append(pid)

m = {
    "version": 1,
    "setup_cmd": "./setup.sh",
    "hooks": {
        "guard": "verif",
        "enable": "go1.26.8 test -c -tags verif -overlay .build/overlay/overlay.json (see build.sh): build tag `verif` enables the zz_verif.go hook files in /repo; scheduling instrumentation is generated into the overlay, never committed",
        "baseline_off_cmd": "cd /repo && go test -mod=mod -json -vet=off -count=1 -timeout 25m ./...",
        "source_commits": hooks,
        "add_only": True,
    },
    "engines": [{"name": "sim/" + h, "path": "sim/h/" + h, "serves_properties": sorted(ps),
                 "kind_free_text": "deterministic simulation harness on simrt (baton scheduler over testing/synctest, choice tape, process-death incarnations)"} for h, ps in sorted(engines.items())],
    "checks": checks,
    "not_applicable": [{"property_id": k, "reason": v} for k, v in sorted(NOT_APPLICABLE.items())],
    "notes": "All checks are seeded simulation runs of the real lindb packages (rewritten into an overlay at check time). VERIF_SEED selects the seed range; VERIF_RUNS / VERIF_BUDGET_S / VERIF_WORKERS override the tier defaults. Violations are minimised and written to replays/; known_findings.json lists genuine defects (open: reported as KNOWN-FINDING; fixed: listed, suppress nothing).",
}
claimed = set(PROPS)
na = set(NOT_APPLICABLE)
allp = [json.loads(l)["id"] for l in open(os.path.join(V, "properties.jsonl"))]
for p in allp:
    if p not in claimed and p not in na:
        m["not_applicable"].append({"property_id": p, "reason": "not claimed yet: harness under construction (see DESIGN.md)"})
m["not_applicable"].sort(key=lambda e: e["property_id"])
with open(os.path.join(V, "MANIFEST.json"), "w") as f:
    json.dump(m, f, indent=1)
    f.write("\n")
print("MANIFEST.json: %d checks, %d not applicable" % (len(checks), len(m["not_applicable"])))
